#!/bin/sh
# developer convenience: build the native harness, showing only harness diagnostics
cd /verif/harness
CARGO_NET_OFFLINE=true RUSTFLAGS="--cfg aho_corasick_verif --check-cfg cfg(aho_corasick_verif)" CARGO_TARGET_DIR=/verif/.build/native \
  cargo build --release --offline --message-format short 2>&1 | grep -v "^/repo\|aho-corasick" | tail -${1:-40}
