#!/bin/sh
# developer convenience: run the harness under Miri (same flags as ./check uses)
cd /verif/harness
export CARGO_NET_OFFLINE=true
export RUSTFLAGS="--cfg aho_corasick_verif --check-cfg cfg(aho_corasick_verif) -Ctarget-feature=+ssse3,+avx2"
export CARGO_TARGET_DIR=/verif/.build/miri
export MIRIFLAGS="-Zmiri-disable-isolation ${EXTRA_MIRIFLAGS}"
exec cargo +nightly miri run --offline --bin ${BIN:-acmon} -- "$@"
