//! C13: a search request is rejected iff the configuration says so, the same
//! way for every automaton kind, pattern list and haystack. The configuration
//! space (match kind x start kind x requested anchoring x automaton kind x
//! 21 public search entry points) is finite and enumerated completely.

use std::io::Cursor;

use aho_corasick::{automaton::OverlappingState, AhoCorasick, Input};

use crate::cfg::{anch, Cfg, Imp, S, SK};
use crate::gen::{self, Profile};
use crate::oracle::Kind;
use crate::report::{pats_from_json, pats_json, pats_show, Ctx, Report, Tier};
use crate::sem::guard;
use crate::util::{hex, show, unhex, Fnv, Rng, J};

/// The 21 public entry points, plus two *histories*: a stepwise overlapping
/// call on an OverlappingState that an earlier (accepted) call has already
/// advanced. Every call is a request of its own, so the predicate is the same.
pub const APIS: [&str; 23] = [
    "find_overlapping@resumed",
    "try_find_overlapping@resumed",
    "is_match",
    "find",
    "find_overlapping",
    "find_iter",
    "find_overlapping_iter",
    "replace_all",
    "replace_all_bytes",
    "replace_all_with",
    "replace_all_with_bytes",
    "stream_find_iter",
    "try_find",
    "try_find_overlapping",
    "try_find_iter",
    "try_find_overlapping_iter",
    "try_replace_all",
    "try_replace_all_bytes",
    "try_replace_all_with",
    "try_replace_all_with_bytes",
    "try_stream_find_iter",
    "try_stream_replace_all",
    "try_stream_replace_all_with",
];

#[derive(Clone, Copy, Debug, PartialEq, Eq)]
pub enum Out {
    Accepted,
    Rejected, // Err(..) from a fallible API
    Panicked,
    /// iterator was constructed but failed/panicked while being drained
    LateFailure,
}

impl Out {
    fn name(self) -> &'static str {
        match self {
            Out::Accepted => "accepted",
            Out::Rejected => "error",
            Out::Panicked => "panic",
            Out::LateFailure => "late-failure",
        }
    }
}

fn takes_input(api: &str) -> bool {
    let api = api.trim_end_matches("@resumed");
    matches!(
        api.trim_start_matches("try_"),
        "is_match" | "find" | "find_overlapping" | "find_iter" | "find_overlapping_iter"
    )
}

fn is_fallible(api: &str) -> bool {
    api.starts_with("try_")
}

/// The predicate of the property text.
pub fn should_reject(
    api: &str,
    kind: Kind,
    sk: SK,
    anchored: bool,
    has_empty: bool,
) -> bool {
    let api = api.trim_end_matches("@resumed");
    let base = api.trim_start_matches("try_");
    let anchored = if takes_input(api) { anchored } else { false };
    // (a) anchoring mode not covered by the start kind
    if !sk.covers(anchored) {
        return true;
    }
    let overlapping = base == "find_overlapping" || base == "find_overlapping_iter";
    let stream = base.starts_with("stream_");
    // (b) overlapping or stream search on a non-standard searcher
    if (overlapping || stream) && kind != Kind::Standard {
        return true;
    }
    // (c) anchored overlapping iterator
    if base == "find_overlapping_iter" && anchored {
        return true;
    }
    // (d) stream search with the empty pattern
    if stream && has_empty {
        return true;
    }
    false
}

/// Call one API and classify the outcome.
pub fn classify(
    ac: &AhoCorasick,
    api: &str,
    hay: &[u8],
    span: (usize, usize),
    anchored: bool,
    earliest: bool,
) -> (Out, String) {
    let npat = ac.patterns_len();
    let input = || Input::new(hay).span(span.0..span.1).anchored(anch(anchored)).earliest(earliest);
    let hay_str = std::str::from_utf8(hay).unwrap_or("");
    let repl_s: Vec<String> = (0..npat).map(|i| format!("<{}>", i)).collect();
    let repl_b: Vec<Vec<u8>> = repl_s.iter().map(|s| s.as_bytes().to_vec()).collect();
    let cap = hay.len() * (npat + 1) + 8;
    // Each arm returns Ok(()) when the request was accepted (and, for
    // iterators, when draining did not fail), Err(msg) for an error value.
    // A panic is caught by `guard` around the whole thing; to tell a panic at
    // call time from a panic while draining an iterator, `constructed` is set
    // once the iterator exists.
    let constructed = std::cell::Cell::new(false);
    let r = guard(|| -> Result<(), String> {
        match api {
            "is_match" => {
                let _ = ac.is_match(input());
                Ok(())
            }
            "find" => {
                let _ = ac.find(input());
                Ok(())
            }
            "find_overlapping" => {
                let mut st = OverlappingState::start();
                ac.find_overlapping(input(), &mut st);
                Ok(())
            }
            "find_overlapping@resumed" | "try_find_overlapping@resumed" => {
                // advance the state with whatever anchoring the searcher
                // accepts (errors of these warm-up calls are ignored), then
                // issue the request under test on the same state
                let mut st = OverlappingState::start();
                for warm in [false, true] {
                    let w = Input::new(hay).span(span.0..span.1).anchored(anch(warm));
                    let _ = ac.try_find_overlapping(w, &mut st);
                    let w = Input::new(hay).span(span.0..span.1).anchored(anch(warm));
                    let _ = ac.try_find_overlapping(w, &mut st);
                }
                if api.starts_with("try_") {
                    ac.try_find_overlapping(input(), &mut st).map_err(|e| e.to_string())
                } else {
                    ac.find_overlapping(input(), &mut st);
                    Ok(())
                }
            }
            "find_iter" => {
                let it = ac.find_iter(input());
                constructed.set(true);
                let _ = it.take(cap).count();
                Ok(())
            }
            "find_overlapping_iter" => {
                let it = ac.find_overlapping_iter(input());
                constructed.set(true);
                let _ = it.take(cap).count();
                Ok(())
            }
            "replace_all" => {
                let _ = ac.replace_all(hay_str, &repl_s);
                Ok(())
            }
            "replace_all_bytes" => {
                let _ = ac.replace_all_bytes(hay, &repl_b);
                Ok(())
            }
            "replace_all_with" => {
                let mut dst = String::new();
                ac.replace_all_with(hay_str, &mut dst, |_, _, _| true);
                Ok(())
            }
            "replace_all_with_bytes" => {
                let mut dst = vec![];
                ac.replace_all_with_bytes(hay, &mut dst, |_, _, _| true);
                Ok(())
            }
            "stream_find_iter" => {
                let it = ac.stream_find_iter(Cursor::new(hay));
                constructed.set(true);
                for r in it.take(cap) {
                    r.map_err(|e| format!("late io error: {}", e))?;
                }
                Ok(())
            }
            "try_find" => ac.try_find(input()).map(|_| ()).map_err(|e| e.to_string()),
            "try_find_overlapping" => {
                let mut st = OverlappingState::start();
                ac.try_find_overlapping(input(), &mut st).map_err(|e| e.to_string())
            }
            "try_find_iter" => {
                let it = ac.try_find_iter(input()).map_err(|e| e.to_string())?;
                constructed.set(true);
                let _ = it.take(cap).count();
                Ok(())
            }
            "try_find_overlapping_iter" => {
                let it = ac
                    .try_find_overlapping_iter(input())
                    .map_err(|e| e.to_string())?;
                constructed.set(true);
                let _ = it.take(cap).count();
                Ok(())
            }
            "try_replace_all" => ac
                .try_replace_all(hay_str, &repl_s)
                .map(|_| ())
                .map_err(|e| e.to_string()),
            "try_replace_all_bytes" => ac
                .try_replace_all_bytes(hay, &repl_b)
                .map(|_| ())
                .map_err(|e| e.to_string()),
            "try_replace_all_with" => {
                let mut dst = String::new();
                ac.try_replace_all_with(hay_str, &mut dst, |_, _, _| true)
                    .map_err(|e| e.to_string())
            }
            "try_replace_all_with_bytes" => {
                let mut dst = vec![];
                ac.try_replace_all_with_bytes(hay, &mut dst, |_, _, _| true)
                    .map_err(|e| e.to_string())
            }
            "try_stream_find_iter" => {
                let it = ac
                    .try_stream_find_iter(Cursor::new(hay))
                    .map_err(|e| e.to_string())?;
                constructed.set(true);
                for r in it.take(cap) {
                    if let Err(e) = r {
                        // an in-memory reader never fails: this is a late failure
                        return Err(format!("late io error: {}", e));
                    }
                }
                Ok(())
            }
            "try_stream_replace_all" => {
                let mut out = vec![];
                ac.try_stream_replace_all(Cursor::new(hay), &mut out, &repl_b)
                    .map_err(|e| e.to_string())
            }
            "try_stream_replace_all_with" => {
                let mut out = vec![];
                ac.try_stream_replace_all_with(
                    Cursor::new(hay),
                    &mut out,
                    |_, _, _| Ok(()),
                )
                .map_err(|e| e.to_string())
            }
            _ => unreachable!("unknown api {}", api),
        }
    });
    match r {
        Ok(Ok(())) => (Out::Accepted, String::new()),
        Ok(Err(e)) => {
            if constructed.get() {
                (Out::LateFailure, e)
            } else {
                (Out::Rejected, e)
            }
        }
        Err(p) => {
            if constructed.get() {
                (Out::LateFailure, format!("panic: {}", p))
            } else {
                (Out::Panicked, p)
            }
        }
    }
}

/// The same for a low-level automaton type driven through the `Automaton`
/// trait (fallible entry points only; there are no infallible ones).
pub fn classify_low<A: aho_corasick::automaton::Automaton>(
    a: &A,
    api: &str,
    hay: &[u8],
    span: (usize, usize),
    anchored: bool,
    earliest: bool,
) -> (Out, String) {
    let npat = a.patterns_len();
    let input = || Input::new(hay).span(span.0..span.1).anchored(anch(anchored)).earliest(earliest);
    let hay_str = std::str::from_utf8(hay).unwrap_or("");
    let repl_s: Vec<String> = (0..npat).map(|i| format!("<{}>", i)).collect();
    let repl_b: Vec<Vec<u8>> = repl_s.iter().map(|s| s.as_bytes().to_vec()).collect();
    let cap = hay.len() * (npat + 1) + 8;
    let constructed = std::cell::Cell::new(false);
    let r = guard(|| -> Result<(), String> {
        match api {
            "try_find" => a.try_find(&input()).map(|_| ()).map_err(|e| e.to_string()),
            "try_find_overlapping" => {
                let mut st = OverlappingState::start();
                a.try_find_overlapping(&input(), &mut st).map_err(|e| e.to_string())
            }
            "try_find_overlapping@resumed" => {
                let mut st = OverlappingState::start();
                for warm in [false, true] {
                    let w = Input::new(hay).span(span.0..span.1).anchored(anch(warm));
                    let _ = a.try_find_overlapping(&w, &mut st);
                    let _ = a.try_find_overlapping(&w, &mut st);
                }
                a.try_find_overlapping(&input(), &mut st).map_err(|e| e.to_string())
            }
            "try_find_iter" => {
                let it = a.try_find_iter(input()).map_err(|e| e.to_string())?;
                constructed.set(true);
                let _ = it.take(cap).count();
                Ok(())
            }
            "try_find_overlapping_iter" => {
                let it = a.try_find_overlapping_iter(input()).map_err(|e| e.to_string())?;
                constructed.set(true);
                let _ = it.take(cap).count();
                Ok(())
            }
            "try_replace_all" => a.try_replace_all(hay_str, &repl_s).map(|_| ()).map_err(|e| e.to_string()),
            "try_replace_all_bytes" => a.try_replace_all_bytes(hay, &repl_b).map(|_| ()).map_err(|e| e.to_string()),
            "try_replace_all_with" => {
                let mut dst = String::new();
                a.try_replace_all_with(hay_str, &mut dst, |_, _, _| true).map_err(|e| e.to_string())
            }
            "try_replace_all_with_bytes" => {
                let mut dst = vec![];
                a.try_replace_all_with_bytes(hay, &mut dst, |_, _, _| true).map_err(|e| e.to_string())
            }
            "try_stream_find_iter" => {
                let it = a.try_stream_find_iter(Cursor::new(hay)).map_err(|e| e.to_string())?;
                constructed.set(true);
                for r in it.take(cap) {
                    if let Err(e) = r {
                        return Err(format!("late io error: {}", e));
                    }
                }
                Ok(())
            }
            "try_stream_replace_all" => {
                let mut out = vec![];
                a.try_stream_replace_all(Cursor::new(hay), &mut out, &repl_b).map_err(|e| e.to_string())
            }
            "try_stream_replace_all_with" => {
                let mut out = vec![];
                a.try_stream_replace_all_with(Cursor::new(hay), &mut out, |_, _, _| Ok(())).map_err(|e| e.to_string())
            }
            _ => unreachable!("no such low-level api {}", api),
        }
    });
    match r {
        Ok(Ok(())) => (Out::Accepted, String::new()),
        Ok(Err(e)) => {
            if constructed.get() {
                (Out::LateFailure, e)
            } else {
                (Out::Rejected, e)
            }
        }
        Err(p) => {
            if constructed.get() {
                (Out::LateFailure, format!("panic: {}", p))
            } else {
                (Out::Panicked, p)
            }
        }
    }
}

/// Is this entry point available on the low-level automaton types?
fn low_api(api: &str) -> bool {
    api.starts_with("try_")
}

fn case_json(
    pats: &[Vec<u8>],
    cfg: &Cfg,
    api: &str,
    hay: &[u8],
    span: (usize, usize),
    anchored: bool,
) -> J {
    J::obj()
        .with("patterns", pats_json(pats))
        .with("patterns_show", pats_show(pats))
        .with("cfg", cfg.to_json())
        .with("api", J::s(api))
        .with("haystack", J::Str(hex(hay)))
        .with("haystack_show", J::Str(show(hay)))
        .with("span", J::Arr(vec![J::i(span.0), J::i(span.1)]))
        .with("anchored", J::Bool(anchored))
}

pub fn check_cell(
    rep: &mut Report,
    pats: &[Vec<u8>],
    cfg: &Cfg,
    s: &S,
    api: &str,
    hay: &[u8],
    span: (usize, usize),
    anchored: bool,
) {
    let he = pats.iter().any(|p| p.is_empty());
    // (the two NFA types always have both start states)
    let sk = match s {
        S::N(_) | S::C(_) => SK::Both,
        _ => cfg.sk,
    };
    let reject = should_reject(api, cfg.kind, sk, anchored, he);
    let expected = if !reject {
        Out::Accepted
    } else if is_fallible(api) {
        Out::Rejected
    } else {
        Out::Panicked
    };
    // The `earliest` option of the input must not influence the outcome: every
    // input-taking cell is evaluated with it off and on.
    let modes: &[bool] = if takes_input(api) { &[false, true] } else { &[false] };
    for &earliest in modes {
    let (got, msg) = match s {
        S::Top(ac) => classify(ac, api, hay, span, anchored, earliest),
        S::N(a) => classify_low(a, api, hay, span, anchored, earliest),
        S::C(a) => classify_low(a, api, hay, span, anchored, earliest),
        S::D(a) => classify_low(a, api, hay, span, anchored, earliest),
    };
    rep.eval();
    let mut h = Fnv::new();
    for p in pats {
        h.bytes(p);
    }
    h.str(&cfg.label()).str(api).bytes(hay).u64(span.0 as u64).u64(span.1 as u64).u64(anchored as u64).u64(earliest as u64);
    rep.nontrivial(h.get());
    rep.tally(if reject { "cells_expect_reject" } else { "cells_expect_accept" });
    if got != expected {
        let a = if takes_input(api) && anchored { "anchored" } else { "unanchored" };
        rep.violation(
            &format!(
                "{}{}:{}:{}:{}:expected-{}:got-{}",
                api,
                if earliest { "+earliest" } else { "" },
                cfg.kind.name(),
                cfg.sk.name(),
                a,
                expected.name(),
                got.name()
            ),
            format!(
                "{} on a {} / start-kind {} searcher ({}), {} input: expected {}, observed {} {}",
                api,
                cfg.kind.name(),
                cfg.sk.name(),
                cfg.imp.name(),
                a,
                expected.name(),
                got.name(),
                msg
            ),
            case_json(pats, cfg, api, hay, span, anchored)
                .with("expected", J::s(expected.name()))
                .with("observed", J::s(got.name())),
        );
    } else if rep.want_sample() && reject && (rep.evaluations % 97 == 0) {
        rep.sample(
            J::obj()
                .with("patterns", pats_show(pats))
                .with("cfg", J::s(&cfg.label()))
                .with("api", J::s(api))
                .with("anchored_input", J::Bool(anchored))
                .with("haystack", J::Str(show(hay)))
                .with("observed", J::s(got.name()))
                .with("message", J::s(&msg)),
        );
    }
    }
}

fn fixed_lists() -> Vec<Vec<Vec<u8>>> {
    let v = |xs: &[&str]| -> Vec<Vec<u8>> {
        xs.iter().map(|s| s.as_bytes().to_vec()).collect()
    };
    vec![
        v(&[]),
        v(&["a"]),
        v(&["abc", "bc", "c"]),
        v(&[""]),
        v(&["ab", "", "b"]),
        v(&["foo", "bar", "quux", "Sherlock"]),
    ]
}

fn run_matrix(
    ctx: &Ctx,
    rep: &mut Report,
    lists: &[Vec<Vec<u8>>],
    hays: &[Vec<u8>],
    part: &mut usize,
) {
    for (li, pats) in lists.iter().enumerate() {
        for &kind in &Kind::ALL {
            for &sk in &SK::ALL {
                for &imp in &Imp::ALL {
                    // (the start kind means nothing to the low-level NFA types)
                    if matches!(imp, Imp::LowNnfa | Imp::LowCnfa) && sk != SK::Both {
                        continue;
                    }
                    *part += 1;
                    if !ctx.mine(*part) {
                        continue;
                    }
                    let cfg = Cfg::new(imp, kind).sk(sk);
                    // The default configuration (standard semantics, unanchored
                    // start kind) of every second list comes from the option-less
                    // constructors `X::new(patterns)`, documented as "the default
                    // configuration": the same outcomes are expected.
                    let by_new = li % 2 == 0
                        && kind == Kind::Standard
                        && match imp {
                            Imp::TopAuto | Imp::LowDfa => sk == SK::Unanchored,
                            Imp::LowNnfa | Imp::LowCnfa => true,
                            _ => false,
                        };
                    if by_new {
                        rep.tally("searchers_from_option_less_constructors");
                    }
                    let s = match guard(|| -> Result<S, String> {
                        if !by_new {
                            return cfg.build(pats);
                        }
                        match imp {
                            Imp::TopAuto => aho_corasick::AhoCorasick::new(pats).map(S::Top).map_err(|e| e.to_string()),
                            Imp::LowNnfa => aho_corasick::nfa::noncontiguous::NFA::new(pats).map(S::N).map_err(|e| e.to_string()),
                            Imp::LowCnfa => aho_corasick::nfa::contiguous::NFA::new(pats).map(S::C).map_err(|e| e.to_string()),
                            _ => aho_corasick::dfa::DFA::new(pats).map(S::D).map_err(|e| e.to_string()),
                        }
                    }) {
                        Ok(Ok(s)) => s,
                        Ok(Err(e)) => {
                            rep.violation(
                                "build:error",
                                format!("build failed: {}", e),
                                case_json(pats, &cfg, "build", b"", (0, 0), false),
                            );
                            continue;
                        }
                        Err(p) => {
                            rep.violation(
                                "build:panic",
                                format!("build panicked: {}", p),
                                case_json(pats, &cfg, "build", b"", (0, 0), false),
                            );
                            continue;
                        }
                    };
                    for api in APIS.iter() {
                        if !imp.is_top() && !low_api(api) {
                            continue;
                        }
                        if !imp.is_top() {
                            rep.tally("cells_low_level_types");
                        }
                        for hay in hays {
                            let spans: Vec<(usize, usize)> = if takes_input(api) {
                                let mut v = vec![(0, hay.len())];
                                if hay.len() >= 2 {
                                    v.push((1, hay.len() - 1));
                                    v.push((hay.len(), hay.len() - 1)); // "done" span
                                }
                                v
                            } else {
                                vec![(0, hay.len())]
                            };
                            for sp in spans {
                                let anchs: &[bool] =
                                    if takes_input(api) { &[false, true] } else { &[false] };
                                for &a in anchs {
                                    check_cell(rep, pats, &cfg, &s, api, hay, sp, a);
                                }
                            }
                        }
                    }
                }
            }
        }
    }
}

pub fn run(ctx: &Ctx, rep: &mut Report) {
    let hays: Vec<Vec<u8>> = vec![
        b"".to_vec(),
        b"a".to_vec(),
        b"xabcx".to_vec(),
        b"foo bar quux Sherlock abcabc".to_vec(),
    ];
    let mut part = 0usize;
    run_matrix(ctx, rep, &fixed_lists(), &hays, &mut part);
    // random lists / haystacks of the same shapes
    let n = ctx.tier.pick(2, 40, 10_000);
    let mut rng = Rng::new(ctx.seed).fork(0xC13);
    let mut lists = vec![];
    let mut rhays = vec![];
    let mut prof = Profile::default_sem();
    prof.letters_only = true; // replace_all(&str) needs valid UTF-8
    prof.many_pct = if ctx.tier == Tier::Thorough { 3 } else { 0 };
    prof.long_pct = 0;
    for _ in 0..n {
        let (p, alpha) = gen::patterns(&mut rng, &prof);
        rhays.push(gen::haystack(&mut rng, &p, &alpha, 30));
        lists.push(p);
    }
    rhays.truncate(3);
    run_matrix(ctx, rep, &lists, &rhays, &mut part);
    rep.tally_n("pattern_lists", (fixed_lists().len() + lists.len()) as u64);
}

pub fn replay(case: &J, rep: &mut Report) -> Result<(), String> {
    let pats = pats_from_json(case.get("patterns").ok_or("patterns")?)?;
    let cfg = Cfg::from_json(case.get("cfg").ok_or("cfg")?)?;
    let api = case.get("api").and_then(|v| v.as_str()).ok_or("api")?;
    let api: &str = APIS.iter().find(|a| **a == api).ok_or("unknown api")?;
    let hay = unhex(case.get("haystack").and_then(|v| v.as_str()).ok_or("haystack")?)?;
    let sp = case.get("span").and_then(|v| v.as_arr()).ok_or("span")?;
    let span = (sp[0].as_usize().ok_or("s")?, sp[1].as_usize().ok_or("e")?);
    let anchored = case.get("anchored").and_then(|v| v.as_bool()).unwrap_or(false);
    let s = cfg.build(&pats)?;
    if !cfg.imp.is_top() && !low_api(api) {
        return Err("no such entry point on a low-level automaton".to_string());
    }
    check_cell(rep, &pats, &cfg, &s, api, &hay, span, anchored);
    Ok(())
}
