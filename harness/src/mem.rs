//! C15: no out-of-bounds access, no panic, sane match bounds.
//!
//! One case generator, three observers (selected by `--stage`):
//!   guard  native speed; the haystack is placed flush against a PROT_NONE
//!          page on its right, then on its left: any read outside the slice
//!          is a SIGSEGV in this child process. The case in flight is kept in
//!          a static buffer which a signal handler dumps to
//!          `<out>.progress` before exiting, so the parent can report it.
//!   miri   the same searches on exact-size boxed haystacks under Miri
//!          (UB / out-of-bounds / provenance errors are reported by Miri).
//!   asan   the same on exact-size heap haystacks in an ASan build.
//! Every stage also asserts start <= end <= len and pattern < patterns_len on
//! every reported match and runs every call under catch_unwind.

use aho_corasick::{automaton::OverlappingState, AhoCorasick, Input, Span};

use crate::cfg::{Cfg, Imp, S, SK};
use crate::gen;
use crate::meta::{decoy_haystack, prefilter_patterns};
use crate::oracle::Kind;
use crate::packed::{self, Variant};
use crate::report::{pats_from_json, pats_json, Ctx, Report, Tier};
use crate::sem::guard;
use crate::util::{hex, unhex, Fnv, Rng, J};

// ------------------------------------------------------------ announce buffer

const ANN_CAP: usize = 1 << 20;
static mut ANN_BUF: [u8; ANN_CAP] = [0; ANN_CAP];
static mut ANN_LEN: usize = 0;
static mut ANN_FD: i32 = -1;

#[cfg(not(miri))]
extern "C" {
    fn signal(signum: i32, handler: usize) -> usize;
    fn write(fd: i32, buf: *const u8, n: usize) -> isize;
    fn _exit(code: i32) -> !;
    fn open(path: *const u8, flags: i32, mode: u32) -> i32;
    fn mmap(addr: *mut u8, len: usize, prot: i32, flags: i32, fd: i32, off: i64) -> *mut u8;
    fn mprotect(addr: *mut u8, len: usize, prot: i32) -> i32;
    fn munmap(addr: *mut u8, len: usize) -> i32;
}

#[cfg(not(miri))]
extern "C" fn on_fatal_signal(sig: i32) {
    unsafe {
        if ANN_FD >= 0 {
            let p = core::ptr::addr_of!(ANN_BUF) as *const u8;
            let _ = write(ANN_FD, p, ANN_LEN);
        }
        _exit(128 + sig);
    }
}

/// Open `<out>.progress` and route fatal signals through the dumper.
#[cfg(not(miri))]
pub fn install_crash_reporter(progress_path: &str) {
    let mut p = progress_path.as_bytes().to_vec();
    p.push(0);
    unsafe {
        // O_WRONLY|O_CREAT|O_TRUNC
        ANN_FD = open(p.as_ptr(), 0o1 | 0o100 | 0o1000, 0o644);
        for sig in [11 /*SEGV*/, 7 /*BUS*/, 6 /*ABRT*/, 4 /*ILL*/] {
            signal(sig, on_fatal_signal as extern "C" fn(i32) as usize);
        }
    }
}

#[cfg(miri)]
pub fn install_crash_reporter(_progress_path: &str) {}

/// Remember the case about to run (cheap: one memcpy of its JSON text).
fn announce(j: &J) {
    if cfg!(miri) {
        // JSON rendering is very slow under the interpreter; a Miri shard is
        // deterministic, so the shard number and seed identify the case.
        return;
    }
    let t = j.to_string();
    let b = t.as_bytes();
    let n = b.len().min(ANN_CAP);
    unsafe {
        let dst = core::ptr::addr_of_mut!(ANN_BUF) as *mut u8;
        core::ptr::copy_nonoverlapping(b.as_ptr(), dst, n);
        ANN_LEN = n;
    }
}

/// Announce a pre-rendered description (used by the purity binary).
pub fn announce_text(t: &str) {
    let b = t.as_bytes();
    let n = b.len().min(ANN_CAP);
    unsafe {
        let dst = core::ptr::addr_of_mut!(ANN_BUF) as *mut u8;
        core::ptr::copy_nonoverlapping(b.as_ptr(), dst, n);
        ANN_LEN = n;
    }
}

// ------------------------------------------------------------ guard pages

const PAGE: usize = 4096;

/// A read/write region with an inaccessible page on each side.
#[cfg(not(miri))]
pub struct GuardBuf {
    base: *mut u8,
    total: usize,
    body: usize,
}

#[cfg(not(miri))]
impl GuardBuf {
    pub fn new(max_len: usize) -> GuardBuf {
        let body = ((max_len + PAGE - 1) / PAGE + 1) * PAGE;
        let total = body + 2 * PAGE;
        unsafe {
            // PROT_READ|PROT_WRITE, MAP_PRIVATE|MAP_ANONYMOUS
            let base = mmap(core::ptr::null_mut(), total, 3, 0x02 | 0x20, -1, 0);
            assert!(base as isize != -1 && !base.is_null(), "mmap failed");
            assert_eq!(mprotect(base, PAGE, 0), 0);
            assert_eq!(mprotect(base.add(PAGE + body), PAGE, 0), 0);
            GuardBuf { base, total, body }
        }
    }
    /// Copy `data` so that its last byte is the last accessible byte.
    pub fn place_right(&mut self, data: &[u8]) -> &[u8] {
        assert!(data.len() <= self.body);
        unsafe {
            let start = self.base.add(PAGE + self.body - data.len());
            core::ptr::copy_nonoverlapping(data.as_ptr(), start, data.len());
            core::slice::from_raw_parts(start, data.len())
        }
    }
    /// Copy `data` so that its first byte is the first accessible byte.
    pub fn place_left(&mut self, data: &[u8]) -> &[u8] {
        assert!(data.len() <= self.body);
        unsafe {
            let start = self.base.add(PAGE);
            core::ptr::copy_nonoverlapping(data.as_ptr(), start, data.len());
            core::slice::from_raw_parts(start, data.len())
        }
    }
}

#[cfg(not(miri))]
impl Drop for GuardBuf {
    fn drop(&mut self) {
        unsafe {
            munmap(self.base, self.total);
        }
    }
}

/// Under Miri there is no mmap; the guard stage is never selected there, this
/// only keeps the signatures uniform.
#[cfg(miri)]
pub struct GuardBuf {
    tmp: Vec<u8>,
}

#[cfg(miri)]
impl GuardBuf {
    pub fn new(_max_len: usize) -> GuardBuf {
        GuardBuf { tmp: vec![] }
    }
    pub fn place_right(&mut self, data: &[u8]) -> &[u8] {
        self.tmp = data.to_vec();
        &self.tmp
    }
    pub fn place_left(&mut self, data: &[u8]) -> &[u8] {
        self.tmp = data.to_vec();
        &self.tmp
    }
}

// ------------------------------------------------------------ the searches

fn bounds_ok(m: &aho_corasick::Match, len: usize, npat: usize) -> bool {
    m.start() <= m.end() && m.end() <= len && m.pattern().as_usize() < npat
}

fn packed_case_json(pats: &[Vec<u8>], kind: Kind, v: Variant, hay: &[u8], span: (usize, usize), placement: &str) -> J {
    J::obj()
        .with("what", J::s("packed"))
        .with("patterns", pats_json(pats))
        .with("kind", J::s(kind.name()))
        .with("variant", J::s(v.name()))
        .with("haystack", J::Str(hex(hay)))
        .with("span", J::Arr(vec![J::i(span.0), J::i(span.1)]))
        .with("placement", J::s(placement))
}

fn ac_case_json(pats: &[Vec<u8>], cfg: &Cfg, hay: &[u8], span: (usize, usize), placement: &str) -> J {
    J::obj()
        .with("what", J::s("ac"))
        .with("patterns", pats_json(pats))
        .with("cfg", cfg.to_json())
        .with("haystack", J::Str(hex(hay)))
        .with("span", J::Arr(vec![J::i(span.0), J::i(span.1)]))
        .with("placement", J::s(placement))
}

/// All packed-searcher calls on one placed haystack.
fn exercise_packed(
    rep: &mut Report,
    pats: &[Vec<u8>],
    kind: Kind,
    v: Variant,
    s: &aho_corasick::packed::Searcher,
    imp: &str,
    hay: &[u8],
    span: (usize, usize),
    placement: &str,
) {
    let cj = if cfg!(miri) { J::Null } else { packed_case_json(pats, kind, v, hay, span, placement) };
    announce(&cj);
    let r = guard(|| {
        let mut bad = None;
        if let Some(m) = s.find_in(hay, Span { start: span.0, end: span.1 }) {
            if !bounds_ok(&m, hay.len(), pats.len()) || m.start() < span.0 || m.end() > span.1 {
                bad = Some(format!("find_in returned {:?} for span {:?} of a {}-byte haystack", m, span, hay.len()));
            }
        }
        if span == (0, hay.len()) {
            for m in s.find_iter(hay).take(hay.len() + 2) {
                if !bounds_ok(&m, hay.len(), pats.len()) {
                    bad = Some(format!("find_iter yielded {:?} on a {}-byte haystack", m, hay.len()));
                }
            }
        }
        bad
    });
    rep.eval();
    rep.tally(&format!("{}_{}", placement, imp));
    let cj = if cfg!(miri) { packed_case_json(pats, kind, v, hay, span, placement) } else { cj };
    match r {
        Err(p) => rep.violation(&format!("panic:packed:{}", imp), format!("packed search panicked: {}", p), cj),
        Ok(Some(d)) => rep.violation(&format!("bounds:packed:{}", imp), d, cj),
        Ok(None) => {}
    }
}

/// A contiguous NFA or DFA (by `cfg.imp`) converted from a noncontiguous NFA
/// built with `cfg`'s options, by a builder that was given other options.
fn converted(cfg: &Cfg, pats: &[Vec<u8>]) -> Result<S, String> {
    let nn = Cfg { imp: Imp::LowNnfa, ..*cfg }.nnfa_builder().build(pats).map_err(|e| e.to_string())?;
    let other_kind = if cfg.kind == Kind::Standard { Kind::LeftmostFirst } else { Kind::Standard };
    let odd = Cfg { kind: other_kind, ci: !cfg.ci, pre: !cfg.pre, ..*cfg };
    match cfg.imp {
        Imp::LowCnfa => odd.cnfa_builder().build_from_noncontiguous(&nn).map(S::C).map_err(|e| e.to_string()),
        _ => odd.dfa_builder().build_from_noncontiguous(&nn).map(S::D).map_err(|e| e.to_string()),
    }
}

/// All top-level / automaton calls on one placed haystack.
fn exercise_ac(
    rep: &mut Report,
    pats: &[Vec<u8>],
    cfg: &Cfg,
    s: &S,
    variant: &str,
    hay: &[u8],
    span: (usize, usize),
    placement: &str,
) {
    let cj = if cfg!(miri) { J::Null } else { ac_case_json(pats, cfg, hay, span, placement) };
    announce(&cj);
    let npat = pats.len();
    let len = hay.len();
    let r = guard(|| -> Option<String> {
        let inp = || Input::new(hay).span(span.0..span.1);
        let chk = |m: (usize, usize, usize), what: &str| -> Option<String> {
            if !(m.1 <= m.2 && m.2 <= len && m.0 < npat && m.1 >= span.0 && m.2 <= span.1) {
                Some(format!("{} returned {:?} for span {:?} of a {}-byte haystack, {} patterns", what, m, span, len, npat))
            } else {
                None
            }
        };
        if let Ok(Some(m)) = s.try_find(inp()) {
            if let Some(e) = chk(m, "try_find") {
                return Some(e);
            }
        }
        if let Ok(Some(m)) = s.try_find(inp().earliest(true)) {
            if let Some(e) = chk(m, "earliest try_find") {
                return Some(e);
            }
        }
        if let Ok(ms) = s.try_find_iter(inp()) {
            for m in ms {
                if let Some(e) = chk(m, "try_find_iter") {
                    return Some(e);
                }
            }
        }
        if cfg.kind == Kind::Standard {
            let mut st = OverlappingState::start();
            for _ in 0..(len + 2) * (npat + 1) {
                if s.try_find_overlapping(inp(), &mut st).is_err() {
                    break;
                }
                match st.get_match() {
                    None => break,
                    Some(m) => {
                        if let Some(e) = chk(crate::cfg::mm(m), "try_find_overlapping") {
                            return Some(e);
                        }
                    }
                }
            }
        }
        if cfg.kind == Kind::Standard {
            if let Ok(ms) = s.try_find_overlapping_iter(inp(), (len + 2) * (npat + 1)) {
                for m in ms {
                    if let Some(e) = chk(m, "try_find_overlapping_iter") {
                        return Some(e);
                    }
                }
            }
        }
        if cfg.sk == SK::Both {
            if let Ok(ms) = s.try_find_iter(inp().anchored(aho_corasick::Anchored::Yes)) {
                for m in ms {
                    if let Some(e) = chk(m, "anchored try_find_iter") {
                        return Some(e);
                    }
                }
            }
        }
        if let S::Top(ac) = s {
            let _ = ac.is_match(inp());
            if span == (0, len) {
                let repl: Vec<&[u8]> = (0..npat).map(|_| &b"<>"[..]).collect();
                let _ = ac.try_replace_all_bytes(hay, &repl);
                if let Ok(t) = std::str::from_utf8(hay) {
                    let repl: Vec<&str> = (0..npat).map(|_| "<>").collect();
                    let out = ac.try_replace_all(t, &repl);
                    if let Ok(o) = out {
                        if std::str::from_utf8(o.as_bytes()).is_err() {
                            return Some("replace_all produced invalid UTF-8".to_string());
                        }
                    }
                }
            }
        }
        None
    });
    rep.eval();
    rep.tally(&format!("{}_prefilter_{}", placement, variant));
    let cj = if cfg!(miri) { ac_case_json(pats, cfg, hay, span, placement) } else { cj };
    match r {
        Err(p) => rep.violation(&format!("panic:{}:{}", cfg.imp.name(), variant), format!("search panicked on arbitrary bytes: {}", p), cj),
        Ok(Some(d)) => rep.violation(&format!("bounds:{}:{}", cfg.imp.name(), variant), d, cj),
        Ok(None) => {}
    }
}

// ------------------------------------------------------------ placement

/// Runs `f(placed haystack, placement name)` for every placement the stage
/// offers.
fn with_placements(stage: &str, gb: &mut GuardBuf, hay: &[u8], f: &mut dyn FnMut(&[u8], &str)) {
    match stage {
        "guard" => {
            {
                let h = gb.place_right(hay);
                // SAFETY of the borrow: `h` points into the mapping, which
                // outlives this call.
                let h: &[u8] = unsafe { core::slice::from_raw_parts(h.as_ptr(), h.len()) };
                f(h, "guard_right");
            }
            {
                let h = gb.place_left(hay);
                let h: &[u8] = unsafe { core::slice::from_raw_parts(h.as_ptr(), h.len()) };
                f(h, "guard_left");
            }
        }
        _ => {
            // exact-size heap allocation: Miri / ASan see any access beyond it
            let b: Box<[u8]> = hay.to_vec().into_boxed_slice();
            f(&b, if stage == "miri" { "miri_box" } else { "exact_box" });
        }
    }
}

fn arbitrary_bytes(rng: &mut Rng, len: usize) -> Vec<u8> {
    match rng.below(4) {
        0 => (0..len).map(|_| rng.below(256) as u8).collect(),
        1 => (0..len).map(|_| *rng.pick(&[0xFFu8, 0xC0, 0x80, 0xED, 0xA0, 0xF4, 0x90, 0x00])).collect(), // invalid UTF-8 soup
        2 => "a€😀ß".bytes().cycle().take(len).collect(),
        _ => vec![*rng.pick(&[0u8, b'a', 0xFF]); len],
    }
}

pub fn run(ctx: &Ctx, rep: &mut Report) {
    let stage: &str = if ctx.stage.is_empty() { "guard" } else { &ctx.stage };
    let mut gb = GuardBuf::new(8192);
    let miri = stage == "miri";
    let mut root = Rng::new(ctx.seed).fork(0xC15 + ctx.shard as u64);
    // ---- 1. packed searchers
    let nlists = match stage {
        "miri" => 1,
        "asan" => ctx.tier.pick(4, 60, 600),
        _ => ctx.tier.pick(4, 250, 10_000),
    };
    let lens: Vec<usize> = if miri {
        vec![0, 1, 2, 3, 15, 16, 17, 18, 19, 31, 32, 33, 34, 35, 47, 48, 63, 64, 65, 66, 67, 70]
    } else {
        (0..=300).collect()
    };
    for li in 0..nlists {
        let mut rng = root.fork(li as u64);
        // Under Miri each shard runs one list; the fingerprint length is
        // tied to the shard number so that all of 1..=4 are always covered.
        let pats = if miri {
            gen::packed_patterns_with(&mut rng, Some(ctx.shard % 4 + 1), 20)
        } else {
            gen::packed_patterns(&mut rng)
        };
        let minlen = pats.iter().map(|p| p.len()).min().unwrap_or(0);
        for &kind in &[Kind::LeftmostFirst, Kind::LeftmostLongest] {
            if miri && (kind == Kind::LeftmostLongest) != ((ctx.shard / 4) % 2 == 1) {
                continue;
            }
            for &v in &Variant::ALL {
                let s = match guard(|| packed::build(&pats, kind, v)) {
                    Ok(Some(s)) => s,
                    Ok(None) => continue,
                    Err(p) => {
                        rep.violation("panic:packed_build", p, packed_case_json(&pats, kind, v, b"", (0, 0), "build"));
                        continue;
                    }
                };
                let imp_name = if cfg!(miri) {
                    // Debug-formatting a searcher is very slow under Miri; with
                    // +avx2 compiled in, the forced variants map one to one.
                    match v {
                        Variant::RabinKarp => "RabinKarp".to_string(),
                        Variant::Slim128 => "SlimSSSE3".to_string(),
                        Variant::Slim256 => "SlimAVX2".to_string(),
                        Variant::Fat256 => "FatAVX2".to_string(),
                        Variant::Default => "Default".to_string(),
                    }
                } else {
                    packed::implementation(&s, v)
                };
                let imp = format!("{}_m{}", imp_name, minlen.min(4));
                let nh = if miri { 5 } else { ctx.tier.pick(4, 24, 40) };
                for k in 0..nh {
                    let len = if !miri && k % 3 == 0 { rng.below(301) } else { *rng.pick(&lens) };
                    let hay = if k % 4 == 3 { arbitrary_bytes(&mut rng, len) } else { gen::vec_haystack(&mut rng, &pats, len) };
                    let spans = gen::vec_spans(&mut rng, len);
                    with_placements(stage, &mut gb, &hay, &mut |h, placement| {
                        for &sp in spans.iter().take(if miri { 2 } else { 6 }) {
                            exercise_packed(rep, &pats, kind, v, &s, &imp, h, sp, placement);
                        }
                    });
                }
            }
        }
    }
    // ---- 2. automata with every prefilter variant
    let nlists = match stage {
        "miri" => 1,
        "asan" => ctx.tier.pick(4, 40, 400),
        _ => ctx.tier.pick(4, 150, 6000),
    };
    for li in 0..nlists {
        let mut rng = root.fork(0x1000 + li as u64);
        let (pats, ci) = if miri {
            // small lists; odd shards aim at the packed prefilter (the only
            // prefilter with unsafe code of its own), even shards at the rest
            let mut r = prefilter_patterns(&mut rng);
            for _ in 0..40 {
                let total: usize = r.0.iter().map(|p| p.len()).sum();
                let packedish = r.0.len() >= 3 && r.0.iter().all(|p| p.len() >= 2) && !r.1;
                if total <= 40 && (packedish == (ctx.shard % 2 == 1)) {
                    break;
                }
                r = prefilter_patterns(&mut rng);
            }
            r
        } else {
            prefilter_patterns(&mut rng)
        };
        for &kind in &Kind::ALL {
            // Under Miri: one kind per shard (leftmost kinds for the packed
            // prefilter), and only the NFAs (building a DFA is very slow there
            // and the automata are safe code).
            if miri {
                let want = if ctx.shard % 2 == 1 { [Kind::LeftmostFirst, Kind::LeftmostLongest][(ctx.shard / 2) % 2] } else { Kind::ALL[(ctx.shard / 2) % 3] };
                if want != kind {
                    continue;
                }
            }
            let cfg = Cfg {
                imp: if miri { *rng.pick(&[Imp::LowNnfa, Imp::TopNnfa, Imp::TopCnfa]) } else { *rng.pick(&Imp::ALL) },
                kind,
                sk: *rng.pick(&[SK::Unanchored, SK::Both]),
                ci,
                pre: true,
                dense_depth: *rng.pick(&[None, Some(0), Some(2)]),
                byte_classes: rng.chance(3, 4),
            };
            let variant = if cfg!(miri) { "any".to_string() } else { cfg.prefilter_variant(&pats) };
            let s = match guard(|| cfg.build(&pats)) {
                Ok(Ok(s)) => s,
                _ => {
                    rep.violation("panic_or_error:build", "build failed".into(), ac_case_json(&pats, &cfg, b"", (0, 0), "build"));
                    continue;
                }
            };
            // ... and (every other list) the same collection as a contiguous NFA
            // resp. DFA CONVERTED from a separately built noncontiguous NFA by a
            // builder whose own options differ (the documentation: they are
            // ignored by the conversion)
            let conv: Option<(Cfg, S)> = if !miri && li % 2 == 0 {
                let c = Cfg { imp: if li % 4 == 0 { Imp::LowCnfa } else { Imp::LowDfa }, ..cfg };
                match guard(|| converted(&c, &pats)) {
                    Ok(Ok(s)) => {
                        rep.tally("converted_automata_built");
                        Some((c, s))
                    }
                    _ => {
                        rep.violation("panic_or_error:build", "build_from_noncontiguous failed".into(), ac_case_json(&pats, &c, b"", (0, 0), "build;converted"));
                        None
                    }
                }
            } else {
                None
            };
            let nh = if miri { 3 } else { ctx.tier.pick(3, 16, 30) };
            for k in 0..nh {
                let len = if miri { *rng.pick(&[0usize, 1, 7, 16, 33, 40]) } else if k % 5 == 0 { rng.range(300, 4000) } else { rng.below(301) };
                let hay = if k % 4 == 3 { arbitrary_bytes(&mut rng, len) } else { decoy_haystack(&mut rng, &pats, len, ci) };
                let spans = gen::vec_spans(&mut rng, len);
                with_placements(stage, &mut gb, &hay, &mut |h, placement| {
                    for &sp in spans.iter().take(if miri { 1 } else { 4 }) {
                        exercise_ac(rep, &pats, &cfg, &s, &variant, h, sp, placement);
                    }
                    if let Some((c, s)) = &conv {
                        if k % 2 == 0 {
                            for &sp in spans.iter().take(2) {
                                exercise_ac(rep, &pats, c, s, &variant, h, sp, &format!("{};converted", placement));
                            }
                        }
                    }
                });
            }
        }
    }
    // ---- 2b. degenerate collections (no patterns, only empty patterns, ...)
    // on every span of tiny haystacks, spans that do not begin at 0 included:
    // the metadata of such searchers has extreme values (a shortest pattern
    // length of usize::MAX for no patterns, 0 with the empty pattern)
    {
        let edge: [&[&[u8]]; 6] = [&[], &[b""], &[b"", b""], &[b"a"], &[b"", b"a"], &[b"ab", b"b", b""]];
        for (ei, e) in edge.iter().enumerate() {
            if miri && ei % 3 != ctx.shard % 3 {
                continue;
            }
            let pats: Vec<Vec<u8>> = e.iter().map(|p| p.to_vec()).collect();
            for &kind in &Kind::ALL {
                let imps: &[Imp] = if miri { &[Imp::LowNnfa, Imp::TopCnfa] } else { &Imp::ALL };
                for &imp in imps {
                    if miri && (kind as usize + ctx.shard / 3) % 3 != 0 {
                        continue;
                    }
                    let cfg = Cfg::new(imp, kind).sk(SK::Both);
                    let s = match guard(|| cfg.build(&pats)) {
                        Ok(Ok(s)) => s,
                        _ => {
                            rep.violation("panic_or_error:build", "build failed".into(), ac_case_json(&pats, &cfg, b"", (0, 0), "build"));
                            continue;
                        }
                    };
                    for hay in [&b""[..], &b"a"[..], &b"xaabx"[..]] {
                        with_placements(stage, &mut gb, hay, &mut |h, placement| {
                            for st in 0..=h.len() {
                                for en in st..=h.len() {
                                    exercise_ac(rep, &pats, &cfg, &s, "degenerate", h, (st, en), placement);
                                }
                            }
                        });
                    }
                }
            }
        }
    }
    // ---- 3. replace routines on UTF-8 haystacks with byte patterns that split
    // code points (must skip such matches, never panic, stay valid UTF-8)
    let nrepl = match stage {
        "miri" => 6,
        "asan" => ctx.tier.pick(20, 2000, 20_000),
        _ => ctx.tier.pick(20, 6000, 200_000),
    };
    for i in 0..nrepl {
        let mut rng = root.fork(0x2000_0000 + i as u64);
        let c = crate::meta::gen_repl_case(&mut rng);
        // (the interpreter needs minutes for one of the generator's long haystacks)
        if miri && (c.pats.iter().map(|p| p.len()).sum::<usize>() > 24 || c.hay.len() > 80) {
            continue;
        }
        let s = match guard(|| c.cfg.build(&c.pats)) {
            Ok(Ok(s)) => s,
            _ => continue,
        };
        let cj = if cfg!(miri) {
            J::Null
        } else {
            J::obj()
                .with("what", J::s("replace"))
                .with("patterns", pats_json(&c.pats))
                .with("cfg", c.cfg.to_json())
                .with("haystack", J::Str(hex(c.hay.as_bytes())))
                .with("span", J::Arr(vec![J::i(0), J::i(c.hay.len())]))
        };
        announce(&cj);
        let r = guard(|| -> Option<String> {
            macro_rules! on {
                ($a:ident => $e:expr) => {
                    match &s {
                        S::Top($a) => $e,
                        S::N($a) => $e,
                        S::C($a) => $e,
                        S::D($a) => $e,
                    }
                };
            }
            use aho_corasick::automaton::Automaton;
            let out = on!(a => a.try_replace_all(&c.hay, &c.repl));
            if let Ok(o) = &out {
                if std::str::from_utf8(o.as_bytes()).is_err() {
                    return Some("replace_all produced invalid UTF-8".into());
                }
            }
            let mut dst = String::new();
            let _ = on!(a => a.try_replace_all_with(&c.hay, &mut dst, |_, t, d| { d.push_str(t); true }));
            if dst != c.hay && !c.pats.iter().any(|p| p.is_empty()) {
                // replacing every match by its own text must reproduce the haystack
                return Some(format!("identity replacement changed the haystack: {:?} -> {:?}", c.hay, dst));
            }
            let _ = on!(a => a.try_replace_all_bytes(c.hay.as_bytes(), &c.repl));
            let mut dstb = vec![];
            let _ = on!(a => a.try_replace_all_with_bytes(c.hay.as_bytes(), &mut dstb, |_, t, d| { d.extend_from_slice(t); true }));
            if dstb != c.hay.as_bytes() {
                return Some("identity byte replacement changed the haystack".into());
            }
            None
        });
        rep.eval();
        rep.tally(&format!("{}_replace_apis", if stage == "guard" { "guard" } else if miri { "miri_box" } else { "exact_box" }));
        let cj = if cfg!(miri) { J::obj().with("what", J::s("replace")).with("patterns", pats_json(&c.pats)).with("cfg", c.cfg.to_json()).with("haystack", J::Str(hex(c.hay.as_bytes()))) } else { cj };
        match r {
            Err(p) => rep.violation(&format!("panic:replace:{}", c.cfg.kind.name()), format!("a replace routine panicked on a valid UTF-8 haystack: {}", p), cj),
            Ok(Some(d)) => rep.violation("bounds:replace", d, cj),
            Ok(None) => {}
        }
    }
    // distinct accounting: every (stage, shard, case index) is distinct by construction;
    // count conservatively the number of searcher/haystack/span combinations
    let mut h = Fnv::new();
    h.str(stage).u64(ctx.shard as u64).u64(ctx.seed);
    let n_ev = rep.evaluations;
    for i in 0..n_ev {
        rep.nontrivial(h.get() ^ i.wrapping_mul(0x9E37_79B9_7F4A_7C15));
    }
    rep.sample(
        J::obj()
            .with("stage", J::s(stage))
            .with("shard", J::i(ctx.shard))
            .with("searches_observed", J::u(rep.evaluations))
            .with("note", J::s("each evaluation is one (searcher, haystack placement, span) on which find/iter/overlapping/replace ran to completion under the observer")),
    );
    let _ = Tier::Quick;
}

/// Replay: re-run one announced case under every native placement.
pub fn replay(case: &J, rep: &mut Report) -> Result<(), String> {
    let what = case.get("what").and_then(|v| v.as_str()).unwrap_or("");
    let pats = pats_from_json(case.get("patterns").ok_or("patterns")?)?;
    let hay = unhex(case.get("haystack").and_then(|v| v.as_str()).ok_or("haystack")?)?;
    let sp = case.get("span").and_then(|v| v.as_arr()).ok_or("span")?;
    let span = (sp[0].as_usize().ok_or("s")?, sp[1].as_usize().ok_or("e")?);
    let mut gb = GuardBuf::new(hay.len().max(1));
    match what {
        "packed" => {
            let c = packed::parse_case(case)?;
            let s = packed::build(&pats, c.kind, c.variant).ok_or("packed searcher not built")?;
            let imp = packed::implementation(&s, c.variant);
            with_placements("guard", &mut gb, &hay, &mut |h, pl| {
                exercise_packed(rep, &pats, c.kind, c.variant, &s, &imp, h, span, pl)
            });
        }
        "ac" => {
            let cfg = Cfg::from_json(case.get("cfg").ok_or("cfg")?)?;
            let was_converted = case.get("placement").and_then(|p| p.as_str()).map_or(false, |p| p.contains("converted"));
            let s = if was_converted { converted(&cfg, &pats)? } else { cfg.build(&pats)? };
            let variant = cfg.prefilter_variant(&pats);
            with_placements("guard", &mut gb, &hay, &mut |h, pl| {
                exercise_ac(rep, &pats, &cfg, &s, &variant, h, span, pl)
            });
        }
        "replace" => {
            let cfg = Cfg::from_json(case.get("cfg").ok_or("cfg")?)?;
            let s = cfg.build(&pats)?;
            let text = String::from_utf8(hay.clone()).map_err(|e| e.to_string())?;
            let repl: Vec<String> = (0..pats.len()).map(|i| format!("[{}]", i)).collect();
            let r = guard(|| {
                use aho_corasick::automaton::Automaton;
                match &s {
                    S::Top(a) => a.try_replace_all(&text, &repl).map(|_| ()).map_err(|e| e.to_string()),
                    S::N(a) => a.try_replace_all(&text, &repl).map(|_| ()).map_err(|e| e.to_string()),
                    S::C(a) => a.try_replace_all(&text, &repl).map(|_| ()).map_err(|e| e.to_string()),
                    S::D(a) => a.try_replace_all(&text, &repl).map(|_| ()).map_err(|e| e.to_string()),
                }
            });
            rep.eval();
            if let Err(p) = r {
                rep.violation("panic:replace:replay", format!("a replace routine panicked: {}", p), case.clone());
            }
        }
        _ => return Err("unknown C15 case".into()),
    }
    let _: Option<&AhoCorasick> = None;
    Ok(())
}
