//! Reference-oracle monitors for the search semantics:
//! C01 (leftmost), C02 (standard), C03 (overlapping), C09 (anchored),
//! C14 (is_match / earliest).

use std::panic::{catch_unwind, AssertUnwindSafe};

use aho_corasick::{automaton::OverlappingState, Input};

use crate::cfg::{anch, Cfg, Imp, S, SK};
use crate::gen::{self, Profile};
use crate::oracle::{Kind, Oracle, M};
use crate::report::{
    m_json, ms_json, om_json, pats_from_json, pats_json, pats_show, Ctx,
    Report, Tier,
};
use crate::util::{hex, show, unhex, Fnv, Rng, J};

// ------------------------------------------------------------ panic guard

thread_local! {
    static LAST_PANIC: std::cell::RefCell<String> = std::cell::RefCell::new(String::new());
}

pub fn install_quiet_panic_hook() {
    std::panic::set_hook(Box::new(|info| {
        let msg = if let Some(s) = info.payload().downcast_ref::<&str>() {
            s.to_string()
        } else if let Some(s) = info.payload().downcast_ref::<String>() {
            s.clone()
        } else {
            "<non-string panic>".to_string()
        };
        let loc = info
            .location()
            .map(|l| format!("{}:{}", l.file(), l.line()))
            .unwrap_or_default();
        LAST_PANIC.with(|p| *p.borrow_mut() = format!("{} @ {}", msg, loc));
    }));
}

/// Run `f`, turning a panic into Err(message).
pub fn guard<T>(f: impl FnOnce() -> T) -> Result<T, String> {
    match catch_unwind(AssertUnwindSafe(f)) {
        Ok(v) => Ok(v),
        Err(_) => Err(LAST_PANIC.with(|p| p.borrow().clone())),
    }
}

/// Flatten "panic or MatchError" into a printable failure.
pub fn call<T>(
    f: impl FnOnce() -> Result<T, aho_corasick::MatchError>,
) -> Result<T, String> {
    match guard(f) {
        Err(p) => Err(format!("panic: {}", p)),
        Ok(Err(e)) => Err(format!("error: {}", e)),
        Ok(Ok(v)) => Ok(v),
    }
}

// ------------------------------------------------------------ case plumbing

pub struct Built {
    pub cfg: Cfg,
    pub s: S,
}

pub fn case_json(
    pats: &[Vec<u8>],
    cfg: &Cfg,
    hay: &[u8],
    span: (usize, usize),
    anchored: bool,
    api: &str,
) -> J {
    J::obj()
        .with("patterns", pats_json(pats))
        .with("patterns_show", pats_show(pats))
        .with("cfg", cfg.to_json())
        .with("haystack", J::Str(hex(hay)))
        .with("haystack_show", J::Str(show(hay)))
        .with("span", J::Arr(vec![J::i(span.0), J::i(span.1)]))
        .with("anchored", J::Bool(anchored))
        .with("api", J::s(api))
}

pub struct ParsedCase {
    pub pats: Vec<Vec<u8>>,
    pub cfg: Cfg,
    pub hay: Vec<u8>,
    pub span: (usize, usize),
    pub anchored: bool,
    pub api: String,
}

pub fn parse_case(j: &J) -> Result<ParsedCase, String> {
    let pats = pats_from_json(j.get("patterns").ok_or("patterns")?)?;
    let cfg = Cfg::from_json(j.get("cfg").ok_or("cfg")?)?;
    let hay = unhex(
        j.get("haystack").and_then(|v| v.as_str()).ok_or("haystack")?,
    )?;
    let sp = j.get("span").and_then(|v| v.as_arr()).ok_or("span")?;
    let span =
        (sp[0].as_usize().ok_or("span0")?, sp[1].as_usize().ok_or("span1")?);
    let anchored =
        j.get("anchored").and_then(|v| v.as_bool()).unwrap_or(false);
    let api =
        j.get("api").and_then(|v| v.as_str()).unwrap_or("").to_string();
    Ok(ParsedCase { pats, cfg, hay, span, anchored, api })
}

pub fn has_empty(pats: &[Vec<u8>]) -> bool {
    pats.iter().any(|p| p.is_empty())
}

fn sig(api: &str, cfg: &Cfg, anchored: bool, pats: &[Vec<u8>], field: &str) -> String {
    format!(
        "{}:{}:{}:{}:{}",
        api,
        if cfg.kind.is_leftmost() { "leftmost" } else { "standard" },
        if anchored { "anchored" } else { "unanchored" },
        if has_empty(pats) { "has_empty" } else { "no_empty" },
        field
    )
}

fn first_diff_field(exp: Option<M>, got: Option<M>) -> &'static str {
    match (exp, got) {
        (None, Some(_)) => "spurious",
        (Some(_), None) => "missing",
        (Some(e), Some(g)) => {
            if e.1 != g.1 {
                "start"
            } else if e.2 != g.2 {
                "end"
            } else {
                "pattern"
            }
        }
        (None, None) => "none",
    }
}

fn seq_diff_field(exp: &[M], got: &[M]) -> &'static str {
    for i in 0..exp.len().max(got.len()) {
        let e = exp.get(i).copied();
        let g = got.get(i).copied();
        if e != g {
            return first_diff_field(e, g);
        }
    }
    "none"
}

pub fn case_hash(
    pats: &[Vec<u8>],
    cfg: &Cfg,
    hay: &[u8],
    span: (usize, usize),
    anchored: bool,
) -> u64 {
    let mut h = Fnv::new();
    for p in pats {
        h.bytes(p);
    }
    h.str(&cfg.label());
    h.bytes(hay);
    h.u64(span.0 as u64).u64(span.1 as u64).u64(anchored as u64);
    h.get()
}

pub fn mk_input<'h>(hay: &'h [u8], span: (usize, usize), anchored: bool) -> Input<'h> {
    Input::new(hay).span(span.0..span.1).anchored(anch(anchored))
}

// ------------------------------------------------------------ the checks

/// try_find + try_find_iter against the oracle (C01, C02, and C09 when
/// `anchored`).
pub fn check_find_and_iter(
    rep: &mut Report,
    pats: &[Vec<u8>],
    b: &Built,
    hay: &[u8],
    span: (usize, usize),
    anchored: bool,
) {
    let o = Oracle::new(pats, b.cfg.ci, b.cfg.kind);
    let exp = o.find(hay, span.0, span.1, anchored);
    let got = call(|| b.s.try_find(mk_input(hay, span, anchored)));
    rep.eval();
    let h = case_hash(pats, &b.cfg, hay, span, anchored);
    if exp.is_some() {
        rep.nontrivial(h);
    }
    match &got {
        Ok(g) if *g == exp => {}
        Ok(g) => rep.violation(
            &sig("find", &b.cfg, anchored, pats, first_diff_field(exp, *g)),
            format!("try_find returned {:?}, definition gives {:?}", g, exp),
            case_json(pats, &b.cfg, hay, span, anchored, "find")
                .with("observed", om_json(*g))
                .with("expected", om_json(exp)),
        ),
        Err(e) => rep.violation(
            &sig("find", &b.cfg, anchored, pats, "failure"),
            format!("try_find failed: {}", e),
            case_json(pats, &b.cfg, hay, span, anchored, "find")
                .with("observed", J::s(e))
                .with("expected", om_json(exp)),
        ),
    }
    let exp_it = o.iter(hay, span.0, span.1, anchored);
    let got_it = call(|| b.s.try_find_iter(mk_input(hay, span, anchored)));
    rep.eval();
    match &got_it {
        Ok(g) if *g == exp_it => {}
        Ok(g) => rep.violation(
            &sig("iter", &b.cfg, anchored, pats, seq_diff_field(&exp_it, g)),
            format!(
                "try_find_iter yielded {:?}, definition gives {:?}",
                g, exp_it
            ),
            case_json(pats, &b.cfg, hay, span, anchored, "iter")
                .with("observed", ms_json(g))
                .with("expected", ms_json(&exp_it)),
        ),
        Err(e) => rep.violation(
            &sig("iter", &b.cfg, anchored, pats, "failure"),
            format!("try_find_iter failed: {}", e),
            case_json(pats, &b.cfg, hay, span, anchored, "iter")
                .with("observed", J::s(e))
                .with("expected", ms_json(&exp_it)),
        ),
    }
    // The consuming Iterator methods, called on the crate's iterator itself
    // (every eighth case, short sequences): they must describe the sequence
    // that `next()` yields.
    if got_it.as_ref().ok() == Some(&exp_it) && exp_it.len() <= 40 && h % 8 == 3 {
        let k = (h as usize / 8) % (exp_it.len() + 1);
        let overl = b.cfg.kind == Kind::Standard && !anchored;
        let r = call(|| b.s.iter_methods(mk_input(hay, span, anchored), k, overl));
        rep.eval();
        rep.tally("iterator_method_cases");
        let exp_o = if overl { Some(o.overlapping(hay, span.0, span.1, false).len()) } else { None };
        let want = crate::cfg::IterDigest {
            count: exp_it.len(),
            last: exp_it.last().copied(),
            nth: exp_it.get(k).copied(),
            ocount: exp_o,
            via_for_each: exp_it.clone(),
            direct_for_each: exp_it.clone(),
            via_fold: exp_it.clone(),
            hint_ok: true,
        };
        match r {
            Ok(gotm) if gotm == want => {}
            Ok(gotm) => rep.violation(
                &sig("iter", &b.cfg, anchored, pats, "iterator_methods"),
                format!("count / last / nth({}) / for_each / fold / size_hint / overlapping count = {:?}, the sequence yielded by next() gives {:?}", k, gotm, want),
                case_json(pats, &b.cfg, hay, span, anchored, "iter"),
            ),
            Err(e) => rep.violation(
                &sig("iter", &b.cfg, anchored, pats, "failure"),
                format!("an Iterator method failed: {}", e),
                case_json(pats, &b.cfg, hay, span, anchored, "iter"),
            ),
        }
    }
    if exp_it.len() >= 2 {
        rep.tally("iter_with_2plus_matches");
    }
    if exp.map_or(false, |m| m.1 == m.2) {
        rep.tally("empty_match_first");
    }
    if rep.want_sample() && exp_it.len() >= 2 {
        rep.sample(
            J::obj()
                .with("patterns", pats_show(pats))
                .with("cfg", J::s(&b.cfg.label()))
                .with("haystack", J::Str(show(hay)))
                .with("span", J::Arr(vec![J::i(span.0), J::i(span.1)]))
                .with("anchored", J::Bool(anchored))
                .with("find_observed", om_json(got.clone().ok().flatten()))
                .with(
                    "iter_observed",
                    ms_json(&got_it.clone().unwrap_or_default()),
                ),
        );
    }
}

/// Stepwise overlapping search + overlapping iterator against the sorted
/// occurrence list (C03; C09 when `anchored`, stepwise only).
pub fn check_overlapping(
    rep: &mut Report,
    pats: &[Vec<u8>],
    b: &Built,
    hay: &[u8],
    span: (usize, usize),
    anchored: bool,
) {
    debug_assert!(b.cfg.kind == Kind::Standard);
    let o = Oracle::new(pats, b.cfg.ci, b.cfg.kind);
    let exp = o.overlapping(hay, span.0, span.1, anchored);
    let h = case_hash(pats, &b.cfg, hay, span, anchored);
    if !exp.is_empty() {
        rep.nontrivial(h ^ 0x0303);
    }
    // --- online monitor over the call history of one OverlappingState
    let extra = 8usize;
    let clone_at = (h as usize) % (exp.len() + 2);
    // searchers with a single start kind reject the other anchor mode
    let one_mode = b.cfg.sk != crate::cfg::SK::Both && matches!(b.s, S::Top(_) | S::D(_));
    let reject_at = if one_mode && !exp.is_empty() { Some(((h / 7) as usize) % (exp.len() + 1)) } else { None };
    let interleaved = std::cell::Cell::new(false);
    let res = guard(|| -> Result<(Vec<Option<M>>, Option<Vec<Option<M>>>), String> {
        let mut st = OverlappingState::start();
        let mut seq: Vec<Option<M>> = vec![];
        let mut cloned: Option<Vec<Option<M>>> = None;
        for k in 0..exp.len() + extra {
            if k == clone_at {
                // continuation on a clone must agree with the original
                let mut st2 = st.clone();
                let mut seq2 = vec![];
                for _ in k..exp.len() + extra {
                    b.s.try_find_overlapping(
                        mk_input(hay, span, anchored),
                        &mut st2,
                    )
                    .map_err(|e| format!("error: {}", e))?;
                    seq2.push(st2.get_match().map(crate::cfg::mm));
                }
                cloned = Some(seq2);
            }
            if Some(k) == reject_at {
                // A request the configuration rejects (the other anchor mode)
                // on the same state, in the middle of the history: it is
                // reported as an error (C13) and is no part of the search, so
                // the occurrences already yielded must not come again and none
                // may be lost. (Should it be accepted, that is C13's business;
                // this history then says nothing.)
                if b.s.try_find_overlapping(mk_input(hay, span, !anchored), &mut st).is_ok() {
                    return Err("skip".to_string());
                }
                interleaved.set(true);
            }
            b.s.try_find_overlapping(mk_input(hay, span, anchored), &mut st)
                .map_err(|e| format!("error: {}", e))?;
            seq.push(st.get_match().map(crate::cfg::mm));
        }
        Ok((seq, cloned))
    });
    if matches!(&res, Ok(Err(e)) if e == "skip") {
        return;
    }
    if interleaved.get() {
        rep.tally("histories_with_a_rejected_request_interleaved");
    }
    rep.evals((exp.len() + extra) as u64);
    let api = "overlapping_step";
    match res {
        Err(p) => rep.violation(
            &sig(api, &b.cfg, anchored, pats, "failure"),
            format!("panic: {}", p),
            case_json(pats, &b.cfg, hay, span, anchored, api),
        ),
        Ok(Err(e)) => rep.violation(
            &sig(api, &b.cfg, anchored, pats, "failure"),
            e.clone(),
            case_json(pats, &b.cfg, hay, span, anchored, api)
                .with("observed", J::s(&e)),
        ),
        Ok(Ok((seq, cloned))) => {
            let want: Vec<Option<M>> = exp
                .iter()
                .map(|&m| Some(m))
                .chain(std::iter::repeat(None).take(extra))
                .collect();
            if seq != want {
                let got: Vec<M> =
                    seq.iter().take_while(|m| m.is_some()).map(|m| m.unwrap()).collect();
                let field = if got == exp {
                    "some_after_none"
                } else {
                    seq_diff_field(&exp, &got)
                };
                rep.violation(
                    &sig(api, &b.cfg, anchored, pats, field),
                    format!(
                        "stepping yielded {:?} (then {:?}), occurrence list is {:?}",
                        got,
                        &seq[got.len().min(seq.len())..],
                        exp
                    ),
                    case_json(pats, &b.cfg, hay, span, anchored, api)
                        .with("observed", ms_json(&got))
                        .with("expected", ms_json(&exp)),
                );
            }
            if let Some(c) = cloned {
                rep.tally("state_clones_checked");
                if c[..] != want[clone_at..] {
                    rep.violation(
                        &sig(api, &b.cfg, anchored, pats, "clone_diverges"),
                        format!(
                            "continuation on a cloned OverlappingState at call {} \
                             yielded {:?}, expected {:?}",
                            clone_at, c, &want[clone_at..]
                        ),
                        case_json(pats, &b.cfg, hay, span, anchored, api),
                    );
                }
            }
            if rep.want_sample() && exp.len() >= 3 {
                rep.sample(
                    J::obj()
                        .with("patterns", pats_show(pats))
                        .with("cfg", J::s(&b.cfg.label()))
                        .with("haystack", J::Str(show(hay)))
                        .with("span", J::Arr(vec![J::i(span.0), J::i(span.1)]))
                        .with("anchored", J::Bool(anchored))
                        .with(
                            "stepping_observed",
                            J::Arr(seq.iter().map(|m| om_json(*m)).collect()),
                        ),
                );
            }
        }
    }
    if exp.len() >= 2 && exp.windows(2).any(|w| w[0].2 == w[1].2) {
        rep.tally("several_matches_at_one_end");
    }
    // --- the iterator form (not available for anchored searches by design)
    if !anchored {
        let api = "overlapping_iter";
        let got = call(|| {
            b.s.try_find_overlapping_iter(
                mk_input(hay, span, false),
                exp.len() + extra,
            )
        });
        rep.eval();
        match got {
            Ok(g) if g == exp => {}
            Ok(g) => rep.violation(
                &sig(api, &b.cfg, anchored, pats, seq_diff_field(&exp, &g)),
                format!("iterator yielded {:?}, occurrence list is {:?}", g, exp),
                case_json(pats, &b.cfg, hay, span, anchored, api)
                    .with("observed", ms_json(&g))
                    .with("expected", ms_json(&exp)),
            ),
            Err(e) => rep.violation(
                &sig(api, &b.cfg, anchored, pats, "failure"),
                format!("try_find_overlapping_iter failed: {}", e),
                case_json(pats, &b.cfg, hay, span, anchored, api)
                    .with("observed", J::s(&e)),
            ),
        }
    }
}

/// C14: is_match / earliest relations.
pub fn check_is_match_earliest(
    rep: &mut Report,
    pats: &[Vec<u8>],
    b: &Built,
    hay: &[u8],
    span: (usize, usize),
    anchored: bool,
) {
    let o = Oracle::new(pats, b.cfg.ci, b.cfg.kind);
    let exists = o.exists(hay, span.0, span.1, anchored);
    let h = case_hash(pats, &b.cfg, hay, span, anchored);
    if exists {
        rep.nontrivial(h ^ 0x1414);
    }
    let normal = call(|| b.s.try_find(mk_input(hay, span, anchored)));
    let normal = match normal {
        Ok(n) => n,
        Err(e) => {
            rep.violation(
                &sig("find", &b.cfg, anchored, pats, "failure"),
                format!("try_find failed: {}", e),
                case_json(pats, &b.cfg, hay, span, anchored, "find"),
            );
            return;
        }
    };
    // find.is_some() <=> some pattern occurs
    rep.eval();
    if normal.is_some() != exists {
        rep.violation(
            &sig("find", &b.cfg, anchored, pats, "existence"),
            format!(
                "try_find returned {:?} but an occurrence {}",
                normal,
                if exists { "exists" } else { "does not exist" }
            ),
            case_json(pats, &b.cfg, hay, span, anchored, "find")
                .with("observed", om_json(normal))
                .with("expected_exists", J::Bool(exists)),
        );
    }
    // is_match (top-level only: the low-level trait has no is_match search)
    if let S::Top(ac) = &b.s {
        let got = guard(|| ac.is_match(mk_input(hay, span, anchored)));
        rep.eval();
        match got {
            Ok(g) if g == exists => {
                rep.tally(if g { "is_match_true" } else { "is_match_false" });
            }
            Ok(g) => rep.violation(
                &sig("is_match", &b.cfg, anchored, pats, "existence"),
                format!("is_match returned {} but occurrence exists = {}", g, exists),
                case_json(pats, &b.cfg, hay, span, anchored, "is_match")
                    .with("observed", J::Bool(g))
                    .with("expected", J::Bool(exists)),
            ),
            Err(p) => rep.violation(
                &sig("is_match", &b.cfg, anchored, pats, "failure"),
                format!("is_match panicked: {}", p),
                case_json(pats, &b.cfg, hay, span, anchored, "is_match"),
            ),
        }
    }
    // earliest mode
    let early = call(|| {
        b.s.try_find(mk_input(hay, span, anchored).earliest(true))
    });
    rep.eval();
    let api = "earliest";
    match early {
        Err(e) => rep.violation(
            &sig(api, &b.cfg, anchored, pats, "failure"),
            format!("earliest try_find failed: {}", e),
            case_json(pats, &b.cfg, hay, span, anchored, api),
        ),
        Ok(None) => {
            if normal.is_some() {
                rep.violation(
                    &sig(api, &b.cfg, anchored, pats, "missing"),
                    format!("earliest returned None, normal search {:?}", normal),
                    case_json(pats, &b.cfg, hay, span, anchored, api)
                        .with("observed", J::Null)
                        .with("normal", om_json(normal)),
                );
            }
        }
        Ok(Some(m)) => {
            let mut bad: Option<(&str, String)> = None;
            if !o.genuine(hay, m, span.0, span.1) {
                bad = Some(("not_an_occurrence", format!("{:?} is not an occurrence inside the span", m)));
            } else if anchored && m.1 != span.0 {
                bad = Some(("start", format!("{:?} does not start at the anchored start {}", m, span.0)));
            } else {
                match normal {
                    None => bad = Some(("spurious", format!("earliest {:?} but normal search returned None", m))),
                    Some(n) => {
                        if m.2 > n.2 {
                            bad = Some(("overshoot", format!("earliest {:?} ends after normal match {:?}", m, n)));
                        } else if m.2 < n.2 {
                            rep.tally("earliest_ended_before_normal");
                        }
                    }
                }
            }
            if let Some((f, d)) = bad {
                rep.violation(
                    &sig(api, &b.cfg, anchored, pats, f),
                    d,
                    case_json(pats, &b.cfg, hay, span, anchored, api)
                        .with("observed", m_json(m))
                        .with("normal", om_json(normal)),
                );
            }
            if rep.want_sample() && normal.map_or(false, |n| n != m) {
                rep.sample(
                    J::obj()
                        .with("patterns", pats_show(pats))
                        .with("cfg", J::s(&b.cfg.label()))
                        .with("haystack", J::Str(show(hay)))
                        .with("span", J::Arr(vec![J::i(span.0), J::i(span.1)]))
                        .with("anchored", J::Bool(anchored))
                        .with("earliest_observed", m_json(m))
                        .with("normal_observed", om_json(normal)),
                );
            }
        }
    }
}

// ------------------------------------------------------------ config sets

/// The fixed configuration set used for the enumerated small scope.
pub fn enum_cfgs(kind: Kind, anchored: bool) -> Vec<Cfg> {
    let c = |imp| Cfg::new(imp, kind);
    if !anchored {
        vec![
            c(Imp::TopNnfa),
            c(Imp::TopCnfa),
            c(Imp::TopDfa),
            c(Imp::TopAuto).sk(SK::Both).pre(false),
            c(Imp::LowNnfa).dd(Some(0)).pre(false),
            c(Imp::LowCnfa).dd(Some(0)).bc(false),
            c(Imp::LowDfa).sk(SK::Both).bc(false),
        ]
    } else {
        vec![
            c(Imp::TopNnfa).sk(SK::Anchored),
            c(Imp::TopCnfa).sk(SK::Both),
            c(Imp::TopDfa).sk(SK::Anchored),
            c(Imp::TopDfa).sk(SK::Both).bc(false),
            c(Imp::TopAuto).sk(SK::Anchored),
            c(Imp::LowNnfa).dd(Some(0)),
            c(Imp::LowCnfa).dd(Some(0)).bc(false),
            c(Imp::LowDfa).sk(SK::Both),
        ]
    }
}

/// A random configuration that supports the requested anchoring.
pub fn rand_cfg(rng: &mut Rng, kind: Kind, anchored: bool, ci: bool) -> Cfg {
    let imp = *rng.pick(&Imp::ALL);
    let sk = if anchored {
        *rng.pick(&[SK::Anchored, SK::Both])
    } else {
        *rng.pick(&[SK::Unanchored, SK::Unanchored, SK::Both])
    };
    Cfg {
        imp,
        kind,
        sk,
        ci,
        pre: rng.chance(2, 3),
        dense_depth: *rng.pick(&[None, None, Some(0), Some(1), Some(2), Some(3), Some(4), Some(7), Some(100), Some(usize::MAX)]),
        byte_classes: rng.chance(3, 4),
    }
}

// ------------------------------------------------------------ the driver

pub struct Drive<'a> {
    pub kinds: &'a [Kind],
    pub anchored: bool,
    pub profile: Profile,
    /// allow case-insensitive configurations in the random part
    pub ci: bool,
    /// (max pattern len, max haystack len) of the enumerated scope per tier
    pub enum_scope: (usize, usize),
    /// number of random pattern lists per shard
    pub random_lists: usize,
    /// max haystack length for random haystacks
    pub max_hay: usize,
}

/// Exhaustive small scope: every pattern list (order and duplicates matter) of
/// at most `max_pats` strings of length <= `max_pat_len` over `alpha`, every
/// haystack of length <= `max_hay_len` over `alpha`, all spans, the fixed
/// configuration set, for each requested case-folding mode.
#[allow(clippy::too_many_arguments)]
fn enumerate(
    ctx: &Ctx,
    rep: &mut Report,
    d: &Drive<'_>,
    alpha: &[u8],
    max_pat_len: usize,
    max_pats: usize,
    max_hay_len: usize,
    ci_modes: &[bool],
    label: &str,
    check: &mut dyn FnMut(&mut Report, &[Vec<u8>], &Built, &[u8], (usize, usize)),
) {
    let strings = gen::all_strings(alpha, max_pat_len);
    let lists = gen::all_lists(&strings, max_pats);
    let hays = gen::all_strings(alpha, max_hay_len);
    let mut nlists = 0u64;
    for (i, pats) in lists.iter().enumerate() {
        if !ctx.mine(i) {
            continue;
        }
        if !d.profile.allow_empty && pats.iter().any(|p| p.is_empty()) {
            continue;
        }
        if pats.len() < d.profile.min_pats {
            continue;
        }
        nlists += 1;
        for &kind in d.kinds {
            for &ci in ci_modes {
                for cfg in enum_cfgs(kind, d.anchored) {
                    let cfg = cfg.ci(ci);
                    let s = match guard(|| cfg.build(pats)) {
                        Ok(Ok(s)) => s,
                        Ok(Err(e)) => {
                            rep.violation(
                                "build:error",
                                format!("build failed: {}", e),
                                case_json(pats, &cfg, b"", (0, 0), false, "build"),
                            );
                            continue;
                        }
                        Err(p) => {
                            rep.violation(
                                "build:panic",
                                format!("build panicked: {}", p),
                                case_json(pats, &cfg, b"", (0, 0), false, "build"),
                            );
                            continue;
                        }
                    };
                    let b = Built { cfg, s };
                    for hay in &hays {
                        // all spans for short haystacks, a spread otherwise
                        for (s0, e0) in gen::all_spans(hay.len(), true) {
                            if hay.len() > 4
                                && !(s0 == 0 || e0 == hay.len() || (s0 + e0) % 3 == 0)
                            {
                                continue;
                            }
                            check(rep, pats, &b, hay, (s0, e0));
                        }
                    }
                }
            }
        }
    }
    rep.tally_n(&format!("enumerated_pattern_lists_{}", label), nlists);
}

/// Enumerated small scope + structured random, calling `check` for every
/// (pattern list, configuration, haystack, span).
pub fn drive(
    ctx: &Ctx,
    rep: &mut Report,
    d: &Drive<'_>,
    check: &mut dyn FnMut(&mut Report, &[Vec<u8>], &Built, &[u8], (usize, usize)),
) {
    // ---- enumeration over {a,b}
    let (plen, hlen) = d.enum_scope;
    if plen > 0 {
        enumerate(ctx, rep, d, b"ab", plen, 3, hlen, &[false], "ab", check);
        // second small scope with both cases of a letter: case-sensitive and
        // case-insensitive searchers over {a, A, b}
        if d.ci {
            let (mp, mh) = match ctx.tier {
                Tier::Tiny => (1, 2),
                Tier::Quick => (2, 4),
                Tier::Thorough => (3, 5),
            };
            enumerate(ctx, rep, d, b"aAb", 2, mp, mh, &[false, true], "aAb", check);
        }
    }
    // ---- structured random
    let mut root = Rng::new(ctx.seed).fork(0x5E11 + ctx.shard as u64);
    for li in 0..d.random_lists {
        let mut rng = root.fork(li as u64);
        // Every fourth list is aimed at a prefilter (so that results that come
        // straight from a prefilter are compared with the definition too) and
        // gets duplicates / equal-length variants injected; sometimes it is
        // grown to 21..64 patterns, the range in which the packed searcher's
        // internal pattern ordering matters.
        let (pats, alpha) = if li % 12 == 5 {
            // the representation-stressing shapes of the structural monitors
            // (wide nodes of every fan-out, chains, nested suffixes ...), here
            // under the reference model
            let p = crate::walk::shaped_patterns(&mut rng, li * ctx.nshards + ctx.shard);
            let mut p: Vec<Vec<u8>> = if d.profile.allow_empty { p } else { p.into_iter().filter(|q| !q.is_empty()).collect() };
            if p.is_empty() {
                p.push(b"a".to_vec());
            }
            let mut a: Vec<u8> = p.iter().flat_map(|q| q.iter().copied()).take(8).collect();
            a.push(b'a');
            (p, a)
        } else if li % 24 == 7 {
            // around the packed searcher's hard limit of 128 patterns: 120..200
            // patterns of length 2..5 over six symbols (many start bytes, no
            // usable rare-byte set, so the packed prefilter is in play)
            let alpha = b"abcdef".to_vec();
            let n = rng.range(120, 200);
            let mut p: Vec<Vec<u8>> = vec![];
            for _ in 0..n {
                let l = rng.range(2, 5);
                p.push(gen::rand_string(&mut rng, &alpha, l));
            }
            (p, alpha)
        } else if li % 4 == 3 {
            let (mut p, _) = crate::meta::prefilter_patterns(&mut rng);
            let alpha: Vec<u8> = {
                let mut a: Vec<u8> = p.iter().flat_map(|q| q.iter().copied()).take(10).collect();
                a.push(b'e');
                a
            };
            if rng.chance(1, 3) && p.len() >= 2 {
                let target = rng.range(21, 64);
                let mut guardn = 0;
                while p.len() < target && guardn < 500 {
                    guardn += 1;
                    let src = rng.pick(&p).clone();
                    if src.len() > 12 {
                        continue;
                    }
                    // same length, another first byte, or an exact duplicate
                    let mut q = src.clone();
                    if rng.chance(1, 3) {
                        // duplicate
                    } else if !q.is_empty() {
                        let i = rng.below(q.len());
                        q[i] = *rng.pick(&alpha);
                    }
                    p.push(q);
                }
            }
            for _ in 0..rng.below(4) {
                let q = rng.pick(&p).clone();
                p.push(q);
            }
            if !d.profile.allow_empty {
                p.retain(|q| !q.is_empty());
            }
            rng.shuffle(&mut p);
            (p, alpha)
        } else {
            gen::patterns(&mut rng, &d.profile)
        };
        let big = pats.len() > 20 || pats.iter().any(|p| p.len() > 64);
        for &kind in d.kinds {
            let ncfg = if big { 2 } else { 3 };
            for _ in 0..ncfg {
                let ci = d.ci && rng.chance(1, 4);
                let cfg = rand_cfg(&mut rng, kind, d.anchored, ci);
                let s = match guard(|| cfg.build(&pats)) {
                    Ok(Ok(s)) => s,
                    Ok(Err(e)) => {
                        rep.violation(
                            "build:error",
                            format!("build failed: {}", e),
                            case_json(&pats, &cfg, b"", (0, 0), false, "build"),
                        );
                        continue;
                    }
                    Err(p) => {
                        rep.violation(
                            "build:panic",
                            format!("build panicked: {}", p),
                            case_json(&pats, &cfg, b"", (0, 0), false, "build"),
                        );
                        continue;
                    }
                };
                let b = Built { cfg, s };
                rep.tally(&format!("cfg_imp_{}", cfg.imp.name()));
                let nh = if big { 3 } else { 6 };
                for _ in 0..nh {
                    let maxh = if rng.chance(1, 6) { d.max_hay * 4 } else { d.max_hay };
                    let hay = gen::haystack(&mut rng, &pats, &alpha, maxh);
                    let nsp = if hay.len() > 40 { 2 } else { 3 };
                    for k in 0..nsp {
                        let sp = if k == 0 { (0, hay.len()) } else { gen::span(&mut rng, hay.len()) };
                        check(rep, &pats, &b, &hay, sp);
                    }
                }
                // one searcher in five also gets a long haystack (lengths just
                // above 256 and around 1 KiB, 4 KiB, 16 KiB, 64 KiB)
                if !big && rng.chance(1, 5) {
                    let target = gen::long_length(&mut rng);
                    let hay = gen::long_haystack(&mut rng, &pats, &alpha, target);
                    rep.tally("long_haystacks");
                    if hay.len() > 60_000 {
                        rep.tally("long_haystacks_64k");
                    }
                    check(rep, &pats, &b, &hay, (0, hay.len()));
                    let sp = gen::span(&mut rng, hay.len());
                    check(rep, &pats, &b, &hay, sp);
                }
            }
        }
    }
    rep.tally_n("random_pattern_lists", d.random_lists as u64);
}

fn scope(tier: Tier) -> (usize, usize) {
    tier.pick((1, 3), (2, 5), (3, 7))
}

// ------------------------------------------------------------ monitors

pub fn run_c01(ctx: &Ctx, rep: &mut Report) {
    let d = Drive {
        kinds: &[Kind::LeftmostFirst, Kind::LeftmostLongest],
        anchored: false,
        profile: Profile::default_sem(),
        ci: true,
        enum_scope: scope(ctx.tier),
        random_lists: ctx.tier.pick(20, 1500, 200_000),
        max_hay: 24,
    };
    drive(ctx, rep, &d, &mut |rep, pats, b, hay, sp| {
        check_find_and_iter(rep, pats, b, hay, sp, false)
    });
    dense_dictionary(ctx, rep, &[Kind::LeftmostFirst, Kind::LeftmostLongest]);
    crate::meta::far_offsets(ctx, rep, &[Kind::LeftmostFirst, Kind::LeftmostLongest]);
}

pub fn run_c02(ctx: &Ctx, rep: &mut Report) {
    let d = Drive {
        kinds: &[Kind::Standard],
        anchored: false,
        profile: Profile::default_sem(),
        ci: true,
        enum_scope: scope(ctx.tier),
        random_lists: ctx.tier.pick(20, 3000, 300_000),
        max_hay: 24,
    };
    drive(ctx, rep, &d, &mut |rep, pats, b, hay, sp| {
        check_find_and_iter(rep, pats, b, hay, sp, false)
    });
    dense_dictionary(ctx, rep, &[Kind::Standard]);
}

pub fn run_c03(ctx: &Ctx, rep: &mut Report) {
    let d = Drive {
        kinds: &[Kind::Standard],
        anchored: false,
        profile: Profile::default_sem(),
        ci: true,
        enum_scope: scope(ctx.tier),
        random_lists: ctx.tier.pick(20, 2000, 250_000),
        max_hay: 20,
    };
    drive(ctx, rep, &d, &mut |rep, pats, b, hay, sp| {
        check_overlapping(rep, pats, b, hay, sp, false)
    });
    many_identifiers_in_one_state(ctx, rep);
}

/// A dictionary in which (almost) every trie state is a match state: one
/// two-byte word first (its first byte is no word), then 250 one-byte words, then 45 000 two-byte
/// words - tens of thousands of match states in one run of state identifiers
/// (the builders shuffle match states to the front; whatever they do with
/// long runs shows here). Checked against the reference model on short
/// haystacks. Every fourth shard.
pub fn dense_dictionary(ctx: &Ctx, rep: &mut Report, kinds: &[Kind]) {
    if ctx.tier == Tier::Tiny || ctx.shard % 4 != 2 {
        return;
    }
    let mut rng = Rng::new(ctx.seed).fork(0xD1C7 + ctx.shard as u64);
    // (the first word's first byte is no word of its own: one non-match state,
    // then nothing but match states in allocation order)
    let mut pats: Vec<Vec<u8>> = vec![vec![255, 255]];
    // (bytes 250..=255 begin no word, so that a search can fall back to the
    // start state and stay there)
    for b in 0..250u8 {
        pats.push(vec![b]);
    }
    let mut seen = std::collections::HashSet::new();
    seen.insert((255u8, 255u8));
    while pats.len() < 45_000 {
        let (a, b) = (rng.below(250) as u8, rng.below(256) as u8);
        if seen.insert((a, b)) {
            pats.push(vec![a, b]);
        }
    }
    let kind = kinds[(ctx.shard / 4) % kinds.len()];
    let imp = [Imp::TopAuto, Imp::LowNnfa, Imp::TopDfa, Imp::LowCnfa][(ctx.shard / 4) % 4];
    let cfg = Cfg::new(imp, kind).pre(rng.chance(1, 2));
    let s = match guard(|| cfg.build(&pats)) {
        Ok(Ok(s)) => s,
        other => {
            rep.violation("build:dense_dictionary", format!("building the 45 000-word dictionary failed: {:?}", other.map(|r| r.map(|_| ()))), case_json(&[], &cfg, b"", (0, 0), false, "build"));
            return;
        }
    };
    let b = Built { cfg, s };
    let o = Oracle::new(&pats, false, kind);
    for k in 0..12 {
        let n = 1 + rng.below(8);
        let mut hay: Vec<u8> = (0..n).map(|_| rng.below(256) as u8).collect();
        if k % 3 == 0 {
            hay = vec![254, 254, 7, 9, 255, 255];
        } else if k % 3 == 1 {
            hay.extend_from_slice(&[251, 254, 253, 7]);
        }
        let exp = o.find(&hay, 0, hay.len(), false);
        let exp_it = o.iter(&hay, 0, hay.len(), false);
        let got = call(|| b.s.try_find(Input::new(&hay[..])));
        let got_it = call(|| b.s.try_find_iter(Input::new(&hay[..])));
        rep.evals(2);
        rep.tally("dense_dictionary_searches");
        if got != Ok(exp) || got_it.as_ref().ok() != Some(&exp_it) {
            rep.violation(
                &format!("find:{}:dense_dictionary", b.cfg.imp.name()),
                format!("45 000-word dictionary (every state a match state): try_find = {:?}, try_find_iter = {:?}; the definition gives {:?} and {:?}", got, got_it, exp, exp_it),
                case_json(&[vec![255, 255]], &b.cfg, &hay, (0, hay.len()), false, "find").with("note", J::s("patterns: [255,255], the single bytes 0..250, then random two-byte words up to 45 000 (regenerate from the seed)")),
            );
            return;
        }
    }
}

/// One automaton state carrying 2^16 pattern identifiers and more (duplicates
/// of one pattern plus its suffixes): every one must be reported, in supply
/// order. (The noncontiguous NFA keeps match lists as linked lists and needs
/// quadratic time to step through one of this size, so it is left out.)
fn many_identifiers_in_one_state(ctx: &Ctx, rep: &mut Report) {
    if ctx.tier == Tier::Tiny {
        return;
    }
    let n = [65_535usize, 65_536, 65_537, 70_000][ctx.shard % 4];
    let imp = [Imp::TopCnfa, Imp::LowDfa, Imp::LowCnfa, Imp::TopDfa, Imp::TopAuto][(ctx.shard / 4) % 5];
    let mut pats: Vec<Vec<u8>> = vec![b"b".to_vec(), b"xab".to_vec()];
    pats.extend(std::iter::repeat(b"ab".to_vec()).take(n));
    pats.push(b"b".to_vec());
    let cfg = Cfg::new(imp, Kind::Standard).pre(false);
    let s = match guard(|| cfg.build(&pats)) {
        Ok(Ok(s)) => s,
        Ok(Err(e)) => {
            rep.violation("build:error", format!("build failed: {}", e), case_json(&[], &cfg, b"", (0, 0), false, "build").with("patterns_count", J::i(pats.len())));
            return;
        }
        Err(p) => {
            rep.violation("build:panic", format!("build panicked: {}", p), case_json(&[], &cfg, b"", (0, 0), false, "build").with("patterns_count", J::i(pats.len())));
            return;
        }
    };
    let b = Built { cfg, s };
    let hay = b"zxabz";
    // (the generic monitor would put 70 000 patterns into every replay file)
    let o = Oracle::new(&pats, false, Kind::Standard);
    let exp = o.overlapping(hay, 0, hay.len(), false);
    let got = call(|| b.s.try_find_overlapping_iter(Input::new(&hay[..]), exp.len() + 8));
    rep.evals(exp.len() as u64);
    rep.tally("many_identifier_cases");
    let small = case_json(&[b"b".to_vec(), b"xab".to_vec()], &b.cfg, hay, (0, hay.len()), false, "overlapping_iter")
        .with("note", J::s(&format!("patterns: b, xab, then {} copies of ab, then b", n)));
    match got {
        Ok(g) if g == exp => {}
        Ok(g) => rep.violation(
            &format!("overlapping_iter:{}:many_identifiers:count", b.cfg.imp.name()),
            format!(
                "{} patterns end in one state; the overlapping iterator yielded {} matches, the occurrence list has {} (first difference at index {:?})",
                n + 1,
                g.len(),
                exp.len(),
                g.iter().zip(exp.iter()).position(|(a, b)| a != b)
            ),
            small,
        ),
        Err(e) => rep.violation(&format!("overlapping_iter:{}:many_identifiers:failure", b.cfg.imp.name()), format!("failed: {}", e), small),
    }
}

pub fn run_c09(ctx: &Ctx, rep: &mut Report) {
    let mut prof = Profile::default_sem();
    prof.many_pct = 2;
    let d = Drive {
        kinds: &Kind::ALL,
        anchored: true,
        profile: prof,
        ci: true,
        enum_scope: scope(ctx.tier),
        random_lists: ctx.tier.pick(20, 1200, 150_000),
        max_hay: 16,
    };
    drive(ctx, rep, &d, &mut |rep, pats, b, hay, sp| {
        check_find_and_iter(rep, pats, b, hay, sp, true);
        if b.cfg.kind == Kind::Standard {
            check_overlapping(rep, pats, b, hay, sp, true);
        }
    });
}

pub fn run_c14(ctx: &Ctx, rep: &mut Report) {
    // unanchored and anchored halves
    for anchored in [false, true] {
        let d = Drive {
            kinds: &Kind::ALL,
            anchored,
            profile: Profile::default_sem(),
            ci: true,
            enum_scope: if anchored { (0, 0) } else { scope(ctx.tier) },
            random_lists: ctx.tier.pick(10, 800, 100_000),
            max_hay: 24,
        };
        drive(ctx, rep, &d, &mut |rep, pats, b, hay, sp| {
            check_is_match_earliest(rep, pats, b, hay, sp, anchored)
        });
    }
}

/// Replay one recorded case through the monitor of `prop`.
pub fn replay(prop: &str, case: &J, rep: &mut Report) -> Result<(), String> {
    let c = parse_case(case)?;
    let s = c.cfg.build(&c.pats)?;
    let b = Built { cfg: c.cfg, s };
    match prop {
        "C01" | "C02" => {
            check_find_and_iter(rep, &c.pats, &b, &c.hay, c.span, c.anchored)
        }
        "C03" => check_overlapping(rep, &c.pats, &b, &c.hay, c.span, c.anchored),
        "C09" => {
            check_find_and_iter(rep, &c.pats, &b, &c.hay, c.span, true);
            if b.cfg.kind == Kind::Standard {
                check_overlapping(rep, &c.pats, &b, &c.hay, c.span, true);
            }
        }
        "C14" => {
            check_is_match_earliest(rep, &c.pats, &b, &c.hay, c.span, c.anchored)
        }
        _ => return Err(format!("sem::replay: unknown property {}", prop)),
    }
    Ok(())
}
