//! C19: bounded work per haystack byte, observed through the hook counters.
//! C20: every pattern collection builds; metadata mirrors the input.

use aho_corasick::{
    automaton::{Automaton, OverlappingState},
    verif, AhoCorasickKind, Input, MatchKind, StartKind,
};

use crate::cfg::{anch, mm, to_mk, Cfg, Imp, S, SK};
use crate::gen::{self, Profile};
use crate::oracle::{fold_vec, Kind};
use crate::report::{pats_from_json, pats_json, pats_show, Ctx, Report, Tier};
use crate::sem::{self, guard};
use crate::stream::SchedReader;
use crate::util::{hex, show, unhex, Fnv, Rng, J};

// ------------------------------------------------------------ C19

/// Adversarial pattern/haystack families for failure-link depth.
fn adversarial(rng: &mut Rng, tier: Tier) -> (Vec<Vec<u8>>, Vec<u8>, &'static str) {
    let big = tier.pick(60, 2000, 2000);
    let hmax = tier.pick(2_000, 20_000, 65_536);
    match rng.below(7) {
        0 => {
            // a^k b against a^n
            let k = rng.range(2, big);
            let mut p = vec![b'a'; k];
            p.push(b'b');
            let mut pats = vec![p];
            if rng.chance(1, 2) {
                let l = rng.range(1, k);
                pats.push(vec![b'a'; l]);
            }
            let n = rng.range(k, hmax);
            let mut h = vec![b'a'; n];
            if rng.chance(1, 2) {
                let i = rng.below(n);
                h[i] = b'c';
            }
            (pats, h, "a^k b")
        }
        1 => {
            // nested suffix chain: x a^k, a^(k-1) c, a^(k-2) d ...
            let k = rng.range(3, big.min(300));
            let mut pats = vec![];
            for j in 0..k {
                let mut p = vec![b'a'; k - j];
                p.push(b'b' + (j % 20) as u8);
                pats.push(p);
            }
            let n = rng.range(k, hmax);
            let mut h = vec![b'a'; n];
            for i in (0..n).step_by(rng.range(k, 3 * k)) {
                h[i] = b'z';
            }
            (pats, h, "nested suffixes")
        }
        2 => {
            // Fibonacci strings
            let mut a = b"a".to_vec();
            let mut b = b"ab".to_vec();
            let mut fibs = vec![a.clone(), b.clone()];
            while b.len() < big.min(1500) {
                let mut c = b.clone();
                c.extend_from_slice(&a);
                a = b;
                b = c;
                fibs.push(b.clone());
            }
            let mut pats: Vec<Vec<u8>> = fibs.iter().rev().take(rng.range(2, 6)).cloned().collect();
            for p in pats.iter_mut() {
                if rng.chance(1, 2) {
                    p.push(b'c'); // never completes
                }
            }
            let mut h = b.clone();
            while h.len() < hmax / 2 {
                let t = h.clone();
                h.extend_from_slice(&t);
            }
            h.truncate(hmax);
            (pats, h, "fibonacci")
        }
        3 => {
            // case-insensitive trie of long mixed-case words
            let k = rng.range(5, 60);
            let w: Vec<u8> = (0..k).map(|i| if i % 2 == 0 { b'a' } else { b'B' }).collect();
            let mut pats = vec![w.clone()];
            let mut w2 = w.clone();
            w2.push(b'x');
            pats.push(w2);
            pats.push(w[1..].to_vec());
            let n = rng.range(k, hmax.min(8000));
            let h: Vec<u8> = (0..n).map(|i| if (i / 3) % 2 == 0 { b'A' } else { b'b' }).collect();
            (pats, h, "case-insensitive trie")
        }
        4 => {
            // long shared prefix + rare byte: prefilter and automaton alternate
            let k = rng.range(3, 40);
            let mut pats = vec![];
            for j in 0..rng.range(2, 6) {
                let mut p = vec![b'e'; k];
                p.push(b'z');
                p.push(b'0' + j as u8);
                pats.push(p);
            }
            let n = rng.range(100, hmax);
            let mut h = vec![b'e'; n];
            let step = rng.range(2, 50);
            for i in (0..n).step_by(step) {
                h[i] = b'z';
            }
            (pats, h, "prefix+rare byte")
        }
        5 => {
            // periodic patterns (ab)^k c and shifts
            let k = rng.range(2, big.min(500));
            let mut base: Vec<u8> = vec![];
            for _ in 0..k {
                base.extend_from_slice(b"ab");
            }
            let mut p1 = base.clone();
            p1.push(b'c');
            let mut p2 = base[1..].to_vec();
            p2.push(b'd');
            let pats = vec![p1, p2, b"ba".to_vec()];
            let n = rng.range(2 * k, hmax);
            let h: Vec<u8> = (0..n).map(|i| if i % 2 == 0 { b'a' } else { b'b' }).collect();
            (pats, h, "periodic")
        }
        _ => {
            let (pats, alpha) = gen::patterns(rng, &Profile::default_sem());
            let h = gen::haystack(rng, &pats, &alpha, 400);
            (pats, h, "structured random")
        }
    }
}

fn c19_case_json(pats: &[Vec<u8>], cfg: &Cfg, hay: &[u8], span: (usize, usize), anchored: bool, api: &str) -> J {
    J::obj()
        .with("patterns", pats_json(pats))
        .with("patterns_show", if pats.iter().map(|p| p.len()).sum::<usize>() <= 300 { pats_show(pats) } else { J::s("(long)") })
        .with("cfg", cfg.to_json())
        .with("haystack", J::Str(hex(hay)))
        .with("haystack_show", J::Str(if hay.len() <= 120 { show(hay) } else { format!("({} bytes)", hay.len()) }))
        .with("span", J::Arr(vec![J::i(span.0), J::i(span.1)]))
        .with("anchored", J::Bool(anchored))
        .with("api", J::s(api))
}

fn is_dfa(cfg: &Cfg, s: &S) -> bool {
    match s {
        S::D(_) => true,
        S::Top(ac) => ac.kind() == AhoCorasickKind::DFA,
        _ => {
            let _ = cfg;
            false
        }
    }
}

struct Budget {
    len: u64,
    dfa: bool,
}

/// Compare the counters accumulated since `reset` with the budget.
fn judge(b: &Budget) -> Option<(&'static str, String)> {
    let c = verif::counters();
    if c.transitions > b.len {
        return Some(("transitions", format!("{} automaton transitions for {} bytes of span", c.transitions, b.len)));
    }
    if b.dfa && c.failures > 0 {
        return Some(("dfa_failures", format!("{} failure-link traversals in a DFA", c.failures)));
    }
    if c.failures > c.transitions {
        return Some(("failures", format!("{} failure-link traversals for {} transitions", c.failures, c.transitions)));
    }
    None
}

pub fn c19_check_one(
    rep: &mut Report,
    pats: &[Vec<u8>],
    cfg: &Cfg,
    s: &S,
    hay: &[u8],
    span: (usize, usize),
    anchored: bool,
    family: &str,
) {
    let len = (span.1 - span.0) as u64;
    let dfa = is_dfa(cfg, s);
    let limit = 4 * len + 64;
    let mut h = Fnv::new();
    for p in pats {
        h.bytes(p);
    }
    h.str(&cfg.label()).bytes(hay).u64(span.0 as u64).u64(span.1 as u64).u64(anchored as u64);
    let inp = || Input::new(hay).span(span.0..span.1).anchored(anch(anchored));
    let sigp = |api: &str, f: &str| {
        format!("{}:{}:{}:{}", api, cfg.kind.name(), if dfa { "dfa" } else { "nfa" }, f)
    };
    // ---- a fresh try_find (normal and earliest)
    for earliest in [false, true] {
        verif::reset_counters();
        verif::set_work_limit(limit);
        let r = guard(|| s.try_find(inp().earliest(earliest)));
        verif::set_work_limit(u64::MAX);
        rep.eval();
        let c = verif::counters();
        rep.tally_n("transitions_observed", c.transitions);
        rep.tally_n("failures_observed", c.failures);
        if c.failures * 2 > c.transitions && c.transitions > 50 {
            rep.tally("calls_with_heavy_failure_traffic");
        }
        if c.transitions > 0 {
            rep.nontrivial(h.get() ^ earliest as u64);
        }
        match r {
            Err(p) => rep.violation(&sigp("find", "panic_or_work_limit"), format!("search aborted: {}", p), c19_case_json(pats, cfg, hay, span, anchored, "find")),
            Ok(Err(e)) => rep.violation(&sigp("find", "error"), e.to_string(), c19_case_json(pats, cfg, hay, span, anchored, "find")),
            Ok(Ok(_)) => {
                if let Some((f, d)) = judge(&Budget { len, dfa }) {
                    rep.violation(&sigp("find", f), format!("try_find: {}", d), c19_case_json(pats, cfg, hay, span, anchored, "find"));
                } else if rep.want_sample() && c.failures > 100 && hay.len() < 5000 {
                    rep.sample(
                        J::obj()
                            .with("family", J::s(family))
                            .with("cfg", J::s(&cfg.label()))
                            .with("patterns", J::i(pats.len()))
                            .with("longest_pattern", J::i(pats.iter().map(|p| p.len()).max().unwrap_or(0)))
                            .with("span_len", J::u(len))
                            .with("transitions_observed", J::u(c.transitions))
                            .with("failure_traversals_observed", J::u(c.failures)),
                    );
                }
            }
        }
    }
    // ---- each next() of the non-overlapping iterator is a fresh call on
    // the remaining span
    {
        let r = guard(|| -> Result<Option<(&'static str, String)>, String> {
            macro_rules! drive {
                ($it:expr) => {{
                    let mut it = $it.map_err(|e| e.to_string())?;
                    let mut pos = span.0;
                    let mut bad = None;
                    for _ in 0..hay.len() + 3 {
                        verif::reset_counters();
                        verif::set_work_limit(4 * (span.1.saturating_sub(pos)) as u64 + 64);
                        let m = it.next();
                        verif::set_work_limit(u64::MAX);
                        // an empty match at the previous end makes the
                        // iterator search once more from one byte later
                        let budget = 2 * (span.1.saturating_sub(pos)) as u64;
                        let c = verif::counters();
                        if c.transitions > budget.max(1) {
                            bad = Some(("iter_transitions", format!("{} transitions in one next() with {} bytes left", c.transitions, span.1.saturating_sub(pos))));
                            break;
                        }
                        if dfa && c.failures > 0 {
                            bad = Some(("dfa_failures", format!("{} failure traversals in a DFA", c.failures)));
                            break;
                        }
                        if c.failures > c.transitions {
                            bad = Some(("iter_failures", format!("{} failures for {} transitions in one next()", c.failures, c.transitions)));
                            break;
                        }
                        match m {
                            None => break,
                            Some(m) => pos = m.end(),
                        }
                    }
                    Ok(bad)
                }};
            }
            match s {
                S::Top(a) => drive!(a.try_find_iter(inp())),
                S::N(a) => drive!(a.try_find_iter(inp())),
                S::C(a) => drive!(a.try_find_iter(inp())),
                S::D(a) => drive!(a.try_find_iter(inp())),
            }
        });
        verif::set_work_limit(u64::MAX);
        rep.eval();
        match r {
            Err(p) => rep.violation(&sigp("iter", "panic_or_work_limit"), format!("iterator aborted: {}", p), c19_case_json(pats, cfg, hay, span, anchored, "iter")),
            Ok(Err(e)) => rep.violation(&sigp("iter", "error"), e, c19_case_json(pats, cfg, hay, span, anchored, "iter")),
            Ok(Ok(Some((f, d)))) => rep.violation(&sigp("iter", f), d, c19_case_json(pats, cfg, hay, span, anchored, "iter")),
            Ok(Ok(None)) => {}
        }
    }
    // ---- cumulative over one OverlappingState
    if cfg.kind == Kind::Standard {
        verif::reset_counters();
        verif::set_work_limit(limit);
        let r = guard(|| -> Result<usize, String> {
            let mut st = OverlappingState::start();
            let mut n = 0;
            let cap = (hay.len() + 2) * (pats.len() + 1) + 8;
            for _ in 0..cap {
                s.try_find_overlapping(inp(), &mut st).map_err(|e| e.to_string())?;
                if st.get_match().is_none() {
                    break;
                }
                n += 1;
            }
            Ok(n)
        });
        verif::set_work_limit(u64::MAX);
        rep.eval();
        match r {
            Err(p) => rep.violation(&sigp("overlapping", "panic_or_work_limit"), format!("overlapping search aborted: {}", p), c19_case_json(pats, cfg, hay, span, anchored, "overlapping")),
            Ok(Err(e)) => rep.violation(&sigp("overlapping", "error"), e, c19_case_json(pats, cfg, hay, span, anchored, "overlapping")),
            Ok(Ok(n)) => {
                rep.tally_n("overlapping_matches_stepped", n as u64);
                if let Some((f, d)) = judge(&Budget { len, dfa }) {
                    rep.violation(&sigp("overlapping", f), format!("cumulative over one OverlappingState: {}", d), c19_case_json(pats, cfg, hay, span, anchored, "overlapping"));
                }
            }
        }
    }
    // ---- cumulative over one stream iterator
    if cfg.kind == Kind::Standard && !anchored && cfg.supports(false) && !pats.iter().any(|p| p.is_empty()) && span == (0, hay.len()) {
        let sched = [7usize, 0, 1, 64];
      // once with the crate's default buffer and once with a tiny one (hook),
      // so that the buffer rolls every few bytes
      for spare in [None, Some(2usize)] {
        verif::set_stream_buffer_spare(spare);
        verif::reset_counters();
        verif::set_work_limit(4 * hay.len() as u64 + 64);
        let r = guard(|| -> Result<usize, String> {
            let mut rdr = SchedReader::new(hay, &sched);
            macro_rules! drain {
                ($a:expr) => {{
                    let it = $a.try_stream_find_iter(&mut rdr).map_err(|e| e.to_string())?;
                    let mut n = 0;
                    for item in it.take(hay.len() + 2) {
                        item.map_err(|e| e.to_string())?;
                        n += 1;
                    }
                    Ok(n)
                }};
            }
            match s {
                S::Top(a) => drain!(a),
                S::N(a) => drain!(a),
                S::C(a) => drain!(a),
                S::D(a) => drain!(a),
            }
        });
        verif::set_work_limit(u64::MAX);
        verif::set_stream_buffer_spare(None);
        rep.eval();
        rep.tally_n("stream_rolls_observed", verif::counters().rolls);
        match r {
            Err(p) => rep.violation(&sigp("stream", "panic_or_work_limit"), format!("stream search aborted: {}", p), c19_case_json(pats, cfg, hay, span, anchored, "stream")),
            Ok(Err(e)) => rep.violation(&sigp("stream", "error"), e, c19_case_json(pats, cfg, hay, span, anchored, "stream")),
            Ok(Ok(_)) => {
                if let Some((f, d)) = judge(&Budget { len: hay.len() as u64, dfa }) {
                    rep.violation(&sigp("stream", f), format!("cumulative over one stream iterator: {}", d), c19_case_json(pats, cfg, hay, span, anchored, "stream"));
                }
                rep.tally("stream_iterators_measured");
            }
        }
      }
    }
}

pub fn run_c19(ctx: &Ctx, rep: &mut Report) {
    let n = ctx.tier.pick(6, 250, 8000);
    let mut root = Rng::new(ctx.seed).fork(0xC19 + ctx.shard as u64);
    for i in 0..n {
        let mut rng = root.fork(i as u64);
        let (pats, hay, family) = adversarial(&mut rng, ctx.tier);
        rep.tally(&format!("family_{}", family.replace(' ', "_")));
        for &kind in &Kind::ALL {
            for anchored in [false, true] {
                let ci = family == "case-insensitive trie" || rng.chance(1, 8);
                let mut cfg = sem::rand_cfg(&mut rng, kind, anchored, ci);
                // very large tries as DFAs are slow to build; keep them to the NFAs
                let total: usize = pats.iter().map(|p| p.len()).sum();
                if total > 20_000 && matches!(cfg.imp, Imp::TopDfa | Imp::LowDfa | Imp::TopAuto) {
                    cfg.imp = if rng.chance(1, 2) { Imp::LowCnfa } else { Imp::TopNnfa };
                }
                let s = match guard(|| cfg.build(&pats)) {
                    Ok(Ok(s)) => s,
                    Ok(Err(e)) => {
                        rep.violation("build:error", e, c19_case_json(&pats, &cfg, b"", (0, 0), false, "build"));
                        continue;
                    }
                    Err(p) => {
                        rep.violation("build:panic", p, c19_case_json(&pats, &cfg, b"", (0, 0), false, "build"));
                        continue;
                    }
                };
                rep.tally(&format!("imp_{}", cfg.imp.name()));
                let spans = [(0, hay.len()), gen::span(&mut rng, hay.len())];
                for sp in spans {
                    if sp.0 > sp.1 {
                        continue;
                    }
                    c19_check_one(rep, &pats, &cfg, &s, &hay, sp, anchored, family);
                }
            }
        }
    }
    rep.tally_n("adversarial_cases", n as u64);
}

pub fn replay_c19(case: &J, rep: &mut Report) -> Result<(), String> {
    let c = sem::parse_case(case)?;
    let s = c.cfg.build(&c.pats)?;
    c19_check_one(rep, &c.pats, &c.cfg, &s, &c.hay, c.span, c.anchored, "replay");
    Ok(())
}

// ------------------------------------------------------------ C20

fn shaped_collection(rng: &mut Rng, tier: Tier, which: usize, global: usize) -> (Vec<Vec<u8>>, &'static str) {
    match which % 13 {
        12 => {
            // one wide node: the fan-out sweeps over every encoding limit
            // (1-9, 64, 125-131, 252-256) by global index
            let n = crate::walk::FANOUT[(global / 13) % crate::walk::FANOUT.len()];
            (crate::walk::wide_node(rng, n), "wide node fan-out sweep")
        }
        0 => (vec![], "no patterns"),
        1 => ((0..rng.range(1, 4)).map(|_| vec![]).collect(), "only empty patterns"),
        2 => {
            let l = rng.range(1, 6);
            let p = gen::rand_string(rng, b"abc", l);
            ((0..rng.range(2, 6)).map(|_| p.clone()).collect(), "duplicates")
        }
        3 => ((0..=255u8).map(|b| vec![b]).collect(), "all 256 single bytes"),
        4 => {
            let l = rng.range(1, 3);
            let pre = gen::rand_string(rng, b"xy", l);
            (
                (0..=255u8)
                    .map(|b| {
                        let mut p = pre.clone();
                        p.push(b);
                        p
                    })
                    .collect(),
                "256 children below one node",
            )
        }
        5 => {
            let n = *rng.pick(&[99usize, 100, 101, 127, 128, 129, 130]);
            ((0..n).map(|k| format!("p{}q", k).into_bytes()).collect(), "100/101/128/129 patterns")
        }
        6 => {
            let n = tier.pick(50, rng.range(1000, 4000), rng.range(2000, 10_000));
            ((0..n).map(|_| { let l = rng.range(1, 8); gen::rand_string(rng, b"abcdefgh\x00\xff", l) }).collect(), "thousands of random patterns")
        }
        7 => {
            let n = rng.range(1, 5);
            (
                (0..n)
                    .map(|_| {
                        let l = if rng.chance(1, 2) { *rng.pick(&[127usize, 128, 129, 254, 255, 256, 257, 258, 511, 512, 513]) } else { rng.range(200, 600) };
                        gen::rand_string(rng, b"etaoinz", l)
                    })
                    .collect(),
                "200-600 byte patterns",
            )
        }
        8 => {
            // every byte value inside longer patterns
            let mut pats = vec![];
            for chunk in (0..=255u8).collect::<Vec<u8>>().chunks(rng.range(3, 40)) {
                pats.push(chunk.to_vec());
            }
            pats.push((0..=255u8).rev().collect());
            (pats, "all byte values in longer patterns")
        }
        9 => {
            let mut pats = vec![vec![]];
            pats.push(b"a".to_vec());
            pats.push(vec![]);
            pats.push(b"ab".to_vec());
            (pats, "empty pattern mixed in")
        }
        _ => {
            let (p, _) = gen::patterns(rng, &Profile::default_sem());
            (p, "structured random")
        }
    }
}

fn infix(needle: &[u8], hay: &[u8]) -> bool {
    needle.is_empty() || hay.windows(needle.len()).any(|w| w == needle)
}

pub fn c20_check_one(rep: &mut Report, pats: &[Vec<u8>], cfg: &Cfg, shape: &str) {
    let cj = || {
        J::obj()
            .with("patterns", if pats.len() <= 300 { pats_json(pats) } else { J::s("(too many; regenerate from seed)") })
            .with("patterns_count", J::i(pats.len()))
            .with("shape", J::s(shape))
            .with("cfg", cfg.to_json())
    };
    let sig = |f: &str| format!("{}:{}:{}", cfg.imp.name(), cfg.kind.name(), f);
    let s = match guard(|| cfg.build(pats)) {
        Ok(Ok(s)) => s,
        Ok(Err(e)) => {
            rep.eval();
            rep.violation(&sig("build_error"), format!("build returned an error: {}", e), cj());
            return;
        }
        Err(p) => {
            rep.eval();
            rep.violation(&sig("build_panic"), format!("build panicked: {}", p), cj());
            return;
        }
    };
    rep.eval();
    rep.tally(&format!("built_{}", cfg.imp.name()));
    rep.tally(&format!("shape_{}", shape.replace(' ', "_").replace('/', "_")));
    let mut h = Fnv::new();
    for p in pats {
        h.bytes(p);
    }
    h.str(&cfg.label());
    if pats.len() >= 2 {
        rep.nontrivial(h.get());
    }
    let mut bad: Vec<(&str, String)> = vec![];
    if s.patterns_len() != pats.len() {
        bad.push(("patterns_len", format!("patterns_len() = {}, supplied {}", s.patterns_len(), pats.len())));
    }
    if !pats.is_empty() {
        let (mn, mx) = (pats.iter().map(|p| p.len()).min().unwrap(), pats.iter().map(|p| p.len()).max().unwrap());
        if s.min_pattern_len() != mn {
            bad.push(("min_pattern_len", format!("min_pattern_len() = {}, shortest supplied pattern has {}", s.min_pattern_len(), mn)));
        }
        if s.max_pattern_len() != mx {
            bad.push(("max_pattern_len", format!("max_pattern_len() = {}, longest supplied pattern has {}", s.max_pattern_len(), mx)));
        }
    }
    // match kind / start kind / kind as requested
    let mk_ok = |m: MatchKind| m == to_mk(cfg.kind);
    match &s {
        S::Top(ac) => {
            if !mk_ok(ac.match_kind()) {
                bad.push(("match_kind", format!("match_kind() = {:?}", ac.match_kind())));
            }
            let sk = match ac.start_kind() {
                StartKind::Both => SK::Both,
                StartKind::Unanchored => SK::Unanchored,
                StartKind::Anchored => SK::Anchored,
            };
            if sk != cfg.sk {
                bad.push(("start_kind", format!("start_kind() = {:?}, requested {:?}", ac.start_kind(), cfg.sk)));
            }
            let want = match cfg.imp {
                Imp::TopNnfa => Some(AhoCorasickKind::NoncontiguousNFA),
                Imp::TopCnfa => Some(AhoCorasickKind::ContiguousNFA),
                Imp::TopDfa => Some(AhoCorasickKind::DFA),
                _ => None,
            };
            if let Some(w) = want {
                if ac.kind() != w {
                    bad.push(("kind", format!("kind() = {:?}, explicitly requested {:?}", ac.kind(), w)));
                }
                // ... and what kind() names is what was built: the searcher's
                // heap usage against that of the three low-level automata
                // built by hand with the same options. A verdict only when the
                // figure is exactly that of a kind that was NOT asked for and
                // differs from the requested kind's (anything else - e.g. a
                // wrapper that accounts for itself - is just counted).
                if pats.iter().map(|p| p.len()).sum::<usize>() <= 20_000 {
                    let mem = ac.memory_usage();
                    let low = |imp: Imp| -> Option<usize> {
                        let c = Cfg { imp, ..*cfg };
                        match guard(|| c.build(pats)) {
                            Ok(Ok(S::N(a))) => Some(a.memory_usage()),
                            Ok(Ok(S::C(a))) => Some(a.memory_usage()),
                            Ok(Ok(S::D(a))) => Some(a.memory_usage()),
                            _ => None,
                        }
                    };
                    let by_kind = [
                        (AhoCorasickKind::NoncontiguousNFA, low(Imp::LowNnfa)),
                        (AhoCorasickKind::ContiguousNFA, low(Imp::LowCnfa)),
                        (AhoCorasickKind::DFA, low(Imp::LowDfa)),
                    ];
                    let of_wanted = by_kind.iter().find(|(k, _)| *k == w).and_then(|(_, m)| *m);
                    if of_wanted == Some(mem) {
                        rep.tally("requested_kind_confirmed_by_heap_usage");
                    } else if let Some((k, _)) = by_kind.iter().find(|(k, m)| *k != w && *m == Some(mem)) {
                        bad.push(("kind_built", format!(
                            "kind() = {:?} as requested, but memory_usage() = {} is exactly that of a hand-built {:?} with the same options (a hand-built {:?}: {:?})",
                            ac.kind(), mem, k, w, of_wanted)));
                    } else {
                        rep.tally("requested_kind_heap_usage_unclassified");
                    }
                }
            }
        }
        S::N(a) => {
            if !mk_ok(a.match_kind()) {
                bad.push(("match_kind", format!("match_kind() = {:?}", a.match_kind())));
            }
        }
        S::C(a) => {
            if !mk_ok(a.match_kind()) {
                bad.push(("match_kind", format!("match_kind() = {:?}", a.match_kind())));
            }
        }
        S::D(a) => {
            if !mk_ok(a.match_kind()) {
                bad.push(("match_kind", format!("match_kind() = {:?}", a.match_kind())));
            }
        }
    }
    // The same metadata read through a reference *type* (generic code that
    // takes `A: Automaton` by value and is handed `&nfa` gets the blanket
    // `impl Automaton for &A`, whose forwarding methods are separate code).
    {
        fn via<A: aho_corasick::automaton::Automaton>(a: A, n: usize) -> (usize, usize, usize, MatchKind, Vec<usize>) {
            let lens = (0..n.min(64)).filter_map(|i| aho_corasick::PatternID::new(i).ok()).map(|pid| a.pattern_len(pid)).collect();
            (a.patterns_len(), a.min_pattern_len(), a.max_pattern_len(), a.match_kind(), lens)
        }
        let got = guard(|| match &s {
            S::N(a) => Some(via(a, pats.len())),
            S::C(a) => Some(via(a, pats.len())),
            S::D(a) => Some(via(a, pats.len())),
            S::Top(_) => None,
        });
        match got {
            Err(p) => bad.push(("by_reference_panic", format!("reading the metadata through &A panicked: {}", p))),
            Ok(None) => {}
            Ok(Some((n, mn, mx, mk, lens))) => {
                rep.tally("metadata_read_through_reference_type");
                if n != pats.len() {
                    bad.push(("patterns_len", format!("<&A>::patterns_len() = {}, supplied {}", n, pats.len())));
                }
                if !pats.is_empty() {
                    let (emn, emx) = (pats.iter().map(|p| p.len()).min().unwrap(), pats.iter().map(|p| p.len()).max().unwrap());
                    if mn != emn {
                        bad.push(("min_pattern_len", format!("<&A>::min_pattern_len() = {}, shortest supplied pattern has {}", mn, emn)));
                    }
                    if mx != emx {
                        bad.push(("max_pattern_len", format!("<&A>::max_pattern_len() = {}, longest supplied pattern has {}", mx, emx)));
                    }
                }
                if !mk_ok(mk) {
                    bad.push(("match_kind", format!("<&A>::match_kind() = {:?}", mk)));
                }
                for (i, l) in lens.iter().enumerate() {
                    if *l != pats[i].len() {
                        bad.push(("pattern_len", format!("<&A>::pattern_len({}) = {}, supplied pattern has {}", i, l, pats[i].len())));
                        break;
                    }
                }
            }
        }
    }
    // pattern_len(i) on the low-level types
    let plen = |i: usize| -> Option<usize> {
        let pid = aho_corasick::PatternID::new(i).ok()?;
        match &s {
            S::N(a) => Some(a.pattern_len(pid)),
            S::C(a) => Some(a.pattern_len(pid)),
            S::D(a) => Some(a.pattern_len(pid)),
            S::Top(_) => None,
        }
    };
    let r = guard(|| {
        for (i, p) in pats.iter().enumerate() {
            if let Some(l) = plen(i) {
                if l != p.len() {
                    return Some((i, l));
                }
            }
        }
        None
    });
    match r {
        Err(p) => bad.push(("pattern_len_panic", p)),
        Ok(Some((i, l))) => bad.push(("pattern_len", format!("pattern_len({}) = {}, supplied pattern has {} bytes", i, l, pats[i].len()))),
        Ok(None) => {}
    }
    // pattern identifiers are input positions
    let used: Vec<bool> = {
        let mut u = vec![false; 256];
        for p in pats {
            for &b in p {
                u[b as usize] = true;
                if cfg.ci && b.is_ascii_alphabetic() {
                    u[(b ^ 0x20) as usize] = true;
                }
            }
        }
        u
    };
    let filler = (0..=255u8).rev().find(|&b| !used[b as usize]);
    // (when the patterns use all 256 byte values there is no filler byte: the
    // pattern is then searched on its own)
    let nfill = if filler.is_some() { 3 } else { 0 };
    if let (f, true) = (filler.unwrap_or(0), cfg.supports(false)) {
        let fp: Vec<Vec<u8>> = if cfg.ci { pats.iter().map(|p| fold_vec(p)).collect() } else { pats.to_vec() };
        let step = (pats.len() / 40).max(1);
        let mut probed = 0;
        for i in (0..pats.len()).step_by(step) {
            if pats[i].is_empty() {
                continue;
            }
            let mut hay = vec![f; nfill];
            hay.extend_from_slice(&pats[i]);
            hay.extend(std::iter::repeat(f).take(nfill));
            // What must come back: for collections of moderate size the
            // reference model says (another pattern inside this one may
            // legitimately win); for big ones only patterns that contain no
            // other pattern are probed, and the answer is the pattern itself.
            let want = if pats.len() <= 600 {
                crate::oracle::Oracle::new(pats, cfg.ci, cfg.kind).find(&hay, 0, hay.len(), false)
            } else {
                if fp.iter().enumerate().any(|(j, q)| j != i && infix(q, &fp[i])) {
                    continue;
                }
                Some((i, nfill, nfill + pats[i].len()))
            };
            let got = sem::call(|| s.try_find(Input::new(&hay)));
            rep.eval();
            probed += 1;
            if got != Ok(want) {
                bad.push(("pattern_id", format!("searching filler + patterns[{}] + filler returned {:?}, expected {:?}", i, got, want)));
                break;
            }
        }
        rep.tally_n("pattern_id_probes", probed);
    }
    if bad.is_empty() {
        if rep.want_sample() && pats.len() > 50 {
            rep.sample(
                J::obj()
                    .with("shape", J::s(shape))
                    .with("patterns", J::i(pats.len()))
                    .with("cfg", J::s(&cfg.label()))
                    .with("observed", J::obj()
                        .with("patterns_len", J::i(s.patterns_len()))
                        .with("min_pattern_len", J::i(s.min_pattern_len()))
                        .with("max_pattern_len", J::i(s.max_pattern_len()))),
            );
        }
    }
    for (f, d) in bad {
        rep.violation(&sig(f), d, cj());
    }
    let _ = mm;
}

/// The convenience constructors must behave like the default builders, and the
/// packed builder must decline (not panic) beyond its documented limits.
pub fn c20_convenience(rep: &mut Report, pats: &[Vec<u8>]) {
    use aho_corasick::{dfa, nfa, packed, AhoCorasick};
    let cj = || J::obj().with("patterns", if pats.len() <= 300 { pats_json(pats) } else { J::s("(many)") }).with("patterns_count", J::i(pats.len())).with("what", J::s("convenience"));
    let r = guard(|| -> Result<(), String> {
        let a = AhoCorasick::new(pats).map_err(|e| format!("AhoCorasick::new: {}", e))?;
        let b = AhoCorasick::builder().build(pats).map_err(|e| format!("builder: {}", e))?;
        if (a.patterns_len(), a.kind(), a.match_kind(), a.start_kind(), a.memory_usage() > 0 || pats.is_empty())
            != (b.patterns_len(), b.kind(), b.match_kind(), b.start_kind(), b.memory_usage() > 0 || pats.is_empty())
        {
            return Err("AhoCorasick::new differs from AhoCorasick::builder().build".into());
        }
        if a.patterns_len() != pats.len() {
            return Err(format!("AhoCorasick::new(..).patterns_len() = {}", a.patterns_len()));
        }
        let n = nfa::noncontiguous::NFA::new(pats).map_err(|e| format!("noncontiguous::NFA::new: {}", e))?;
        let c = nfa::contiguous::NFA::new(pats).map_err(|e| format!("contiguous::NFA::new: {}", e))?;
        let d = dfa::DFA::new(pats).map_err(|e| format!("DFA::new: {}", e))?;
        let n2 = nfa::noncontiguous::NFA::builder().build(pats).map_err(|e| e.to_string())?;
        let c2 = nfa::contiguous::NFA::builder().build(pats).map_err(|e| e.to_string())?;
        let d2 = dfa::DFA::builder().build(pats).map_err(|e| e.to_string())?;
        for (what, x, y) in [
            ("noncontiguous", n.patterns_len(), n2.patterns_len()),
            ("contiguous", c.patterns_len(), c2.patterns_len()),
            ("dfa", d.patterns_len(), d2.patterns_len()),
        ] {
            if x != y || x != pats.len() {
                return Err(format!("{}::new patterns_len {} vs builder {} vs input {}", what, x, y, pats.len()));
            }
        }
        // packed: Searcher::new == Builder::new().extend().build(); None for no
        // patterns, an empty pattern, or more than 128 patterns - never a panic
        let p1 = packed::Searcher::new(pats.iter());
        let p2 = packed::Builder::new().extend(pats.iter()).build();
        let p3 = packed::Config::default().builder().extend(pats.iter()).build();
        let must_be_none = pats.is_empty() || pats.iter().any(|p| p.is_empty()) || pats.len() > 128;
        if p1.is_some() != p2.is_some() || p2.is_some() != p3.is_some() {
            return Err("packed::Searcher::new / Builder::new / Config::default disagree on buildability".into());
        }
        if must_be_none && p1.is_some() {
            return Err("packed searcher built for an unsupported collection".into());
        }
        if let Some(p) = &p1 {
            let _ = p.match_kind();
            let _ = p.memory_usage();
        }
        // Builders obtained through the `Default` trait (what `T::default()`,
        // `mem::take(&mut builder)`, `unwrap_or_default()` and a `#[derive(Default)]`
        // on a struct holding a builder give) are builders like any other.
        {
            let mut kept = packed::Builder::new();
            kept.extend(pats.iter());
            let taken = std::mem::take(&mut kept); // `kept` is now a Default builder
            let mut pd = packed::Builder::default();
            pd.extend(pats.iter());
            kept.extend(pats.iter());
            let mut pn = packed::Builder::new();
            pn.extend(pats.iter());
            for (what, b) in [("packed::Builder::default()", &pd), ("the builder left by mem::take", &kept), ("the builder moved out by mem::take", &taken)] {
                if (b.len(), b.minimum_len()) != (pn.len(), pn.minimum_len()) {
                    return Err(format!("{}: len()/minimum_len() = {:?}, a builder from new() with the same patterns: {:?}", what, (b.len(), b.minimum_len()), (pn.len(), pn.minimum_len())));
                }
                let (x, y) = (b.build(), pn.build());
                if x.is_some() != y.is_some() {
                    return Err(format!("{} and Builder::new() disagree on buildability", what));
                }
                if let (Some(x), Some(y)) = (x, y) {
                    let hay: Vec<u8> = pats.iter().flat_map(|p| p.iter().copied().chain(std::iter::once(b'-'))).take(400).collect();
                    let mx: Vec<(usize, usize, usize)> = x.find_iter(&hay).map(|m| (m.pattern().as_usize(), m.start(), m.end())).collect();
                    let my: Vec<(usize, usize, usize)> = y.find_iter(&hay).map(|m| (m.pattern().as_usize(), m.start(), m.end())).collect();
                    if mx != my || x.minimum_len() != y.minimum_len() {
                        return Err(format!("{} builds a searcher that differs from Builder::new()'s", what));
                    }
                }
            }
            let meta = |a: &AhoCorasick| (a.patterns_len(), a.kind(), a.match_kind(), a.start_kind(), a.memory_usage(), if pats.is_empty() { (0, 0) } else { (a.min_pattern_len(), a.max_pattern_len()) });
            let ad = aho_corasick::AhoCorasickBuilder::default().build(pats).map_err(|e| format!("AhoCorasickBuilder::default(): {}", e))?;
            if meta(&ad) != meta(&b) {
                return Err(format!("AhoCorasickBuilder::default() builds {:?}, AhoCorasick::builder() {:?}", meta(&ad), meta(&b)));
            }
            let nd = nfa::noncontiguous::Builder::default().build(pats).map_err(|e| e.to_string())?;
            let cd = nfa::contiguous::Builder::default().build(pats).map_err(|e| e.to_string())?;
            let dd = dfa::Builder::default().build(pats).map_err(|e| e.to_string())?;
            use aho_corasick::automaton::Automaton;
            for (what, x, y) in [
                ("noncontiguous::Builder", (nd.patterns_len(), nd.memory_usage(), nd.match_kind()), (n2.patterns_len(), n2.memory_usage(), n2.match_kind())),
                ("contiguous::Builder", (cd.patterns_len(), cd.memory_usage(), cd.match_kind()), (c2.patterns_len(), c2.memory_usage(), c2.match_kind())),
                ("dfa::Builder", (dd.patterns_len(), dd.memory_usage(), dd.match_kind()), (d2.patterns_len(), d2.memory_usage(), d2.match_kind())),
            ] {
                if x != y {
                    return Err(format!("{}::default() builds {:?}, ::new() {:?}", what, x, y));
                }
            }
            // the documented defaults of the option types
            if MatchKind::default() != MatchKind::Standard || StartKind::default() != StartKind::Unanchored {
                return Err("MatchKind::default() / StartKind::default() are not Standard / Unanchored".into());
            }
            if !matches!(packed::MatchKind::default(), packed::MatchKind::LeftmostFirst) {
                return Err("packed::MatchKind::default() is not LeftmostFirst".into());
            }
        }
        Ok(())
    });
    rep.eval();
    rep.tally("convenience_constructor_sets");
    rep.tally("default_trait_builder_sets");
    match r {
        Err(p) => rep.violation("convenience:panic", format!("a convenience constructor panicked: {}", p), cj()),
        Ok(Err(e)) => rep.violation("convenience:mismatch", e, cj()),
        Ok(Ok(())) => {}
    }
}

pub fn run_c20(ctx: &Ctx, rep: &mut Report) {
    let n = ctx.tier.pick(12, 140, 15_000);
    let mut root = Rng::new(ctx.seed).fork(0xC20 + ctx.shard as u64);
    for i in 0..n {
        let mut rng = root.fork(i as u64);
        let (pats, shape) = shaped_collection(&mut rng, ctx.tier, i + ctx.shard, i * ctx.nshards + ctx.shard);
        let total: usize = pats.iter().map(|p| p.len()).sum();
        if total <= 5000 {
            c20_convenience(rep, &pats);
        }
        let ncfg = if total > 5000 { 4 } else { 10 };
        for _ in 0..ncfg {
            let kind = *rng.pick(&Kind::ALL);
            let cfg = Cfg {
                imp: *rng.pick(&Imp::ALL),
                kind,
                sk: *rng.pick(&SK::ALL),
                ci: rng.chance(1, 4),
                pre: rng.chance(1, 2),
                dense_depth: *rng.pick(&[None, Some(0), Some(1), Some(2), Some(5), Some(1000)]),
                byte_classes: rng.chance(1, 2),
            };
            c20_check_one(rep, &pats, &cfg, shape);
        }
    }
    rep.tally_n("collections", n as u64);
    // Every explicitly requested kind x start kind x match kind, for
    // collections on both sides of the 100-pattern mark at which the automatic
    // choice changes (an explicit request must not be subject to it).
    if ctx.tier != Tier::Tiny {
        let mut cell = 0;
        for np in [1usize, 3, 100, 101, 130] {
            let pats: Vec<Vec<u8>> = (0..np).map(|i| format!("{}x{}", (b'a' + (i % 26) as u8) as char, i).into_bytes()).collect();
            for imp in [Imp::TopNnfa, Imp::TopCnfa, Imp::TopDfa] {
                for sk in SK::ALL {
                    for kind in Kind::ALL {
                        cell += 1;
                        if !ctx.mine(cell) {
                            continue;
                        }
                        let cfg = Cfg { imp, kind, sk, ci: cell % 5 == 0, pre: cell % 2 == 0, dense_depth: None, byte_classes: cell % 3 != 0 };
                        c20_check_one(rep, &pats, &cfg, "explicit kind matrix");
                        rep.tally("explicit_kind_matrix_cells");
                    }
                }
            }
        }
    }
    c20_builder_reuse(ctx, rep);
    c20_packed_match_kind(rep);
    // One collection whose automata are big in *memory*: about 70 000 trie
    // states, all written densely with byte classes off (256 transitions each):
    // more than 2^24 table entries (64 MiB) for the contiguous NFA and the DFA.
    // Far below the documented limits (2^31 - 1 state identifiers), far above
    // anything the other shapes reach. Once per run (shard 0; every 4th shard
    // in the thorough tier with other seeds).
    if ctx.tier != Tier::Tiny && (ctx.shard == 0 || (ctx.tier == Tier::Thorough && ctx.shard % 4 == 0)) {
        let mut rng = root.fork(0xB16D);
        let pats: Vec<Vec<u8>> = (0..2800).map(|_| gen::rand_string(&mut rng, b"abcd", 32)).collect();
        for imp in [Imp::TopCnfa, Imp::LowCnfa, Imp::LowDfa, Imp::TopDfa] {
            let cfg = Cfg {
                imp,
                kind: Kind::ALL[rng.below(3)],
                sk: SK::Unanchored,
                ci: false,
                pre: false,
                dense_depth: Some(1_000_000),
                byte_classes: false,
            };
            c20_check_one(rep, &pats, &cfg, "70k dense states");
            rep.tally("big_dense_builds");
        }
    }
    // One collection at the edge of what a DFA can hold: 100 patterns of 84 000
    // bytes (8.4 million trie states); with byte classes off a DFA would need
    // 2^31 table entries, more than a state identifier can address. Building
    // must still succeed for the automatic kind (which is meant to fall back)
    // and for both NFA kinds. About a second and 400 MB; shard 1 only.
    if ctx.tier != Tier::Tiny && ctx.shard == 1 {
        let pats: Vec<Vec<u8>> = (0..100u32)
            .map(|i| {
                let mut p = vec![b'a' + (i % 20) as u8, b'a' + (i / 20) as u8];
                let mut x = i.wrapping_mul(2654435761).wrapping_add(ctx.seed as u32 | 1);
                while p.len() < 84_000 {
                    x ^= x << 13;
                    x ^= x >> 17;
                    x ^= x << 5;
                    p.push(b'a' + (x % 4) as u8);
                }
                p
            })
            .collect();
        for imp in [Imp::TopAuto, Imp::TopCnfa] {
            let cfg = Cfg { imp, kind: Kind::LeftmostFirst, sk: SK::Unanchored, ci: false, pre: false, dense_depth: None, byte_classes: false };
            c20_check_one(rep, &pats, &cfg, "8.4M states, byte classes off");
            rep.tally("near_dfa_limit_builds");
        }
    }
}

/// Builders are values that may be kept and used again: one configured
/// builder must give, for every collection handed to it, the searcher a fresh
/// builder gives (nothing of an earlier build may stick to it), and a packed
/// builder that is extended after a build must behave like one that got all
/// patterns at once - while the searcher built earlier stays what it was.
fn c20_builder_reuse(ctx: &Ctx, rep: &mut Report) {
    use aho_corasick::{packed, AhoCorasick, AhoCorasickKind};
    let n = ctx.tier.pick(2, 40, 2000);
    let mut root = Rng::new(ctx.seed).fork(0xB11D + ctx.shard as u64);
    for i in 0..n {
        let mut rng = root.fork(i as u64);
        let kind = *rng.pick(&Kind::ALL);
        let cfg = Cfg {
            imp: *rng.pick(&Imp::ALL),
            kind,
            sk: *rng.pick(&[SK::Unanchored, SK::Both]),
            ci: rng.chance(1, 4),
            pre: rng.chance(2, 3),
            dense_depth: *rng.pick(&[None, Some(0), Some(2)]),
            byte_classes: rng.chance(1, 2),
        };
        // three collections of different character, the prefilter-directed
        // ones first (their builders have the most state)
        let lists: Vec<Vec<Vec<u8>>> = (0..3)
            .map(|k| if k < 2 { crate::meta::prefilter_patterns(&mut rng).0 } else { gen::patterns(&mut rng, &gen::Profile::default_sem()).0 })
            .collect();
        let shared: Vec<Result<S, String>> = {
            // one builder object for all three
            match cfg.imp {
                Imp::LowNnfa => {
                    let b = cfg.nnfa_builder();
                    lists.iter().enumerate().map(|(k, l)| if k % 2 == 0 { b.build(l) } else { b.build((0u64..u64::MAX).take_while(|&i| (i as usize) < l.len()).map(|i| l[i as usize].clone())) }.map(S::N).map_err(|e| e.to_string())).collect()
                }
                Imp::LowCnfa => {
                    let b = cfg.cnfa_builder();
                    lists.iter().enumerate().map(|(k, l)| if k % 2 == 0 { b.build(l) } else { b.build((0u64..u64::MAX).take_while(|&i| (i as usize) < l.len()).map(|i| l[i as usize].clone())) }.map(S::C).map_err(|e| e.to_string())).collect()
                }
                Imp::LowDfa => {
                    let b = cfg.dfa_builder();
                    lists.iter().enumerate().map(|(k, l)| if k % 2 == 0 { b.build(l) } else { b.build((0u64..u64::MAX).take_while(|&i| (i as usize) < l.len()).map(|i| l[i as usize].clone())) }.map(S::D).map_err(|e| e.to_string())).collect()
                }
                _ => {
                    // A builder with a HISTORY: every option is first set to some
                    // other value and then, in a shuffled order, to the wanted
                    // one - only the last call per option may count, whatever
                    // the other options were at the time.
                    let want_kind = match cfg.imp {
                        Imp::TopNnfa => Some(AhoCorasickKind::NoncontiguousNFA),
                        Imp::TopCnfa => Some(AhoCorasickKind::ContiguousNFA),
                        Imp::TopDfa => Some(AhoCorasickKind::DFA),
                        _ => None,
                    };
                    let mut b = AhoCorasick::builder();
                    for pass in 0..2 {
                        let mut order = [0u8, 1, 2, 3, 4, 5, 6];
                        rng.shuffle(&mut order);
                        for what in order {
                            let first = pass == 0;
                            match what {
                                0 => {
                                    b.match_kind(if first { to_mk(Kind::ALL[rng.below(3)]) } else { to_mk(cfg.kind) });
                                }
                                1 => {
                                    b.start_kind(if first { SK::ALL[rng.below(3)].to_ac() } else { cfg.sk.to_ac() });
                                }
                                2 => {
                                    b.ascii_case_insensitive(if first { !cfg.ci } else { cfg.ci });
                                }
                                3 => {
                                    b.prefilter(if first { !cfg.pre } else { cfg.pre });
                                }
                                4 => {
                                    b.byte_classes(if first { !cfg.byte_classes } else { cfg.byte_classes });
                                }
                                5 => {
                                    b.kind(if first {
                                        *rng.pick(&[None, Some(AhoCorasickKind::NoncontiguousNFA), Some(AhoCorasickKind::ContiguousNFA), Some(AhoCorasickKind::DFA)])
                                    } else {
                                        want_kind
                                    });
                                }
                                _ => {
                                    // (the two NFA builders have different defaults,
                                    // which the top-level setter cannot restore: only
                                    // touched when the configuration sets a depth)
                                    if let Some(d) = cfg.dense_depth {
                                        b.dense_depth(if first { rng.below(6) } else { d });
                                    }
                                }
                            }
                        }
                    }
                    rep.tally("builders_with_setter_history");
                    // ... and the collections handed over as iterators of
                    // different kinds (the upper size hint of the second one is
                    // astronomically loose, the third yields borrowed slices)
                    lists
                        .iter()
                        .enumerate()
                        .map(|(k, l)| {
                            let r = match k % 3 {
                                0 => b.build(l),
                                1 => b.build((0u64..u64::MAX).take_while(|&i| (i as usize) < l.len()).map(|i| l[i as usize].clone())),
                                _ => b.build(l.iter().filter(|_| true).map(|p| &p[..])),
                            };
                            r.map(S::Top).map_err(|e| e.to_string())
                        })
                        .collect()
                }
            }
        };
        for (k, l) in lists.iter().enumerate() {
            rep.eval();
            rep.tally("builder_reuse_builds");
            let cj = || J::obj().with("patterns", pats_json(l)).with("cfg", cfg.to_json()).with("what", J::s("builder_reuse")).with("build_number", J::i(k));
            let fresh = match guard(|| cfg.build(l)) {
                Ok(Ok(s)) => s,
                _ => continue, // reported by the main monitor
            };
            let sh = match &shared[k] {
                Ok(s) => s,
                Err(e) => {
                    rep.violation("builder_reuse:build_error", format!("build number {} of a reused builder failed: {}", k + 1, e), cj());
                    continue;
                }
            };
            if (sh.patterns_len(), sh.min_pattern_len(), sh.max_pattern_len()) != (fresh.patterns_len(), fresh.min_pattern_len(), fresh.max_pattern_len()) {
                rep.violation("builder_reuse:metadata", format!("build number {} of a reused builder reports other metadata than a fresh builder", k + 1), cj());
                continue;
            }
            if let (S::Top(x), S::Top(y)) = (sh, &fresh) {
                if (x.kind(), x.start_kind(), x.match_kind()) != (y.kind(), y.start_kind(), y.match_kind()) {
                    rep.violation(
                        "builder_reuse:metadata",
                        format!("a builder with a setter history built kind/start kind/match kind {:?}, a fresh builder with the same final settings {:?}", (x.kind(), x.start_kind(), x.match_kind()), (y.kind(), y.start_kind(), y.match_kind())),
                        cj(),
                    );
                    continue;
                }
            }
            for round in 0..4 {
                let len = rng.range(0, 120);
                let hay = crate::meta::decoy_haystack(&mut rng, l, len, cfg.ci);
                // (the last round anchored, where the start kind allows it)
                let anchored = round == 3 && cfg.sk == SK::Both;
                let a = crate::walk::answers(sh, cfg.kind, &hay, (0, hay.len()), anchored);
                let b = crate::walk::answers(&fresh, cfg.kind, &hay, (0, hay.len()), anchored);
                if a.earliest_as_existence() != b.earliest_as_existence() {
                    rep.violation(
                        "builder_reuse:results",
                        format!("build number {} of a reused builder ({}) answers differently from a searcher built by a fresh builder", k + 1, cfg.label()),
                        cj().with("haystack", J::Str(hex(&hay))),
                    );
                    break;
                }
            }
        }
        // packed: build, extend, build again
        let (l1, _) = crate::meta::prefilter_patterns(&mut rng);
        let (l2, _) = crate::meta::prefilter_patterns(&mut rng);
        if l1.is_empty() || l2.is_empty() || l1.len() + l2.len() > 128 || l1.iter().chain(l2.iter()).any(|p| p.is_empty()) {
            continue;
        }
        let mk = if rng.chance(1, 2) { packed::MatchKind::LeftmostFirst } else { packed::MatchKind::LeftmostLongest };
        let both: Vec<Vec<u8>> = l1.iter().chain(l2.iter()).cloned().collect();
        let r = guard(|| {
            let mut c = packed::Config::new();
            c.match_kind(mk);
            let mut b = c.builder();
            b.extend(l1.iter());
            let s1 = b.build();
            b.extend(l2.iter());
            let s12 = b.build();
            let f1 = c.builder().extend(l1.iter()).build();
            let f12 = c.builder().extend(both.iter()).build();
            (s1, s12, f1, f12)
        });
        rep.eval();
        rep.tally("packed_builder_reuse_cases");
        let cj = || J::obj().with("patterns", pats_json(&both)).with("first_batch", J::i(l1.len())).with("what", J::s("packed_builder_reuse"));
        match r {
            Err(p) => rep.violation("builder_reuse:packed_panic", format!("packed builder reuse panicked: {}", p), cj()),
            Ok((s1, s12, f1, f12)) => {
                // the packed searcher reports the match kind it was configured with
                if let Some(bad) = [&s1, &s12, &f1, &f12].iter().filter_map(|s| s.as_ref()).find(|s| format!("{:?}", s.match_kind()) != format!("{:?}", mk)) {
                    rep.violation("builder_reuse:packed_match_kind", format!("packed searcher configured with {:?} reports match_kind() = {:?}", mk, bad.match_kind()), cj());
                    continue;
                }
                if s1.is_some() != f1.is_some() || s12.is_some() != f12.is_some() {
                    rep.violation("builder_reuse:packed_buildability", "a packed builder extended after a build disagrees with a fresh one on whether a searcher can be built".to_string(), cj());
                    continue;
                }
                for _ in 0..3 {
                    let len = rng.range(0, 120);
                    let hay = crate::meta::decoy_haystack(&mut rng, &both, len, false);
                    let run = |s: &Option<packed::Searcher>| -> Option<Vec<(usize, usize, usize)>> {
                        s.as_ref().map(|s| s.find_iter(&hay).take(hay.len() + 2).map(|m| (m.pattern().as_usize(), m.start(), m.end())).collect())
                    };
                    if run(&s1) != run(&f1) {
                        rep.violation("builder_reuse:packed_first", "the searcher built before the builder was extended differs from a fresh one for the first batch".to_string(), cj().with("haystack", J::Str(hex(&hay))));
                        break;
                    }
                    if run(&s12) != run(&f12) {
                        rep.violation("builder_reuse:packed_extended", "the searcher built after extending a used builder differs from a fresh one given all patterns".to_string(), cj().with("haystack", J::Str(hex(&hay))));
                        break;
                    }
                }
            }
        }
    }
}

/// `packed::Searcher::match_kind()` for every kind and for collections in every
/// length order (one pattern; longest first; shortest first; mixed).
fn c20_packed_match_kind(rep: &mut Report) {
    use aho_corasick::packed;
    let lists: [&[&str]; 5] = [&["foo"], &["foobar", "foo"], &["foo", "foobar"], &["ab", "abcd", "abc"], &["zz", "aa", "bb"]];
    for l in lists {
        for mk in [packed::MatchKind::LeftmostFirst, packed::MatchKind::LeftmostLongest] {
            let s = packed::Config::new().match_kind(mk).builder().extend(l.iter()).build();
            rep.eval();
            rep.tally("packed_match_kind_reads");
            if let Some(s) = s {
                if format!("{:?}", s.match_kind()) != format!("{:?}", mk) {
                    rep.violation(
                        "convenience:packed_match_kind",
                        format!("packed searcher for {:?} configured with {:?} reports match_kind() = {:?}", l, mk, s.match_kind()),
                        J::obj().with("what", J::s("convenience")).with("patterns", pats_json(&l.iter().map(|p| p.as_bytes().to_vec()).collect::<Vec<_>>())),
                    );
                }
            }
        }
    }
}

pub fn replay_c20(case: &J, rep: &mut Report) -> Result<(), String> {
    let pj = case.get("patterns").ok_or("patterns")?;
    if pj.as_arr().is_none() {
        return Err("this witness has too many patterns to be stored; re-run the check with the same seed".into());
    }
    let pats = pats_from_json(pj)?;
    if matches!(case.get("what").and_then(|v| v.as_str()), Some("builder_reuse") | Some("packed_builder_reuse")) {
        return Err("builder-reuse witnesses are histories over several collections; re-run the check with the same seed".into());
    }
    if case.get("what").and_then(|v| v.as_str()) == Some("convenience") {
        c20_convenience(rep, &pats);
        return Ok(());
    }
    let cfg = Cfg::from_json(case.get("cfg").ok_or("cfg")?)?;
    c20_check_one(rep, &pats, &cfg, "replay");
    let _ = unhex;
    Ok(())
}

// ------------------------------------------------------------ C19 cost probe

/// The function whose instruction count callgrind collects
/// (`--toggle-collect=*cost_probe_measured*`). Drains the non-overlapping
/// iterator over the given span and returns the number of matches.
#[inline(never)]
pub fn cost_probe_measured(s: &S, hay: &[u8], span: (usize, usize), op: &str) -> usize {
    match op {
        "overlap" => {
            // stepwise overlapping search to exhaustion
            let mut st = OverlappingState::start();
            let mut n = 0usize;
            loop {
                if s.try_find_overlapping(Input::new(hay).span(span.0..span.1), &mut st).is_err() {
                    return usize::MAX;
                }
                if st.get_match().is_none() {
                    return n;
                }
                n += 1;
                if n > 10 * hay.len() + 10 {
                    return n;
                }
            }
        }
        "stream" => {
            let sched = [4096usize];
            let body = &hay[span.0..span.1];
            let mut rdr = SchedReader::new(body, &sched);
            let r = match s {
                S::Top(a) => a.try_stream_find_iter(&mut rdr).map(|it| it.count()),
                S::N(a) => a.try_stream_find_iter(&mut rdr).map(|it| it.count()),
                S::C(a) => a.try_stream_find_iter(&mut rdr).map(|it| it.count()),
                S::D(a) => a.try_stream_find_iter(&mut rdr).map(|it| it.count()),
            };
            r.unwrap_or(usize::MAX)
        }
        _ => match s.try_find_iter(Input::new(hay).span(span.0..span.1)) {
            Ok(v) => v.len(),
            Err(_) => usize::MAX,
        },
    }
}

pub const COST_FAMILIES: [&str; 14] = [
    "Memmem", "StartBytesOne", "StartBytesTwo", "StartBytesThree", "RareBytesOne", "RareBytesTwo",
    "RareBytesThree", "Packed", "none-akb", "none-fib", "none-nested", "none-periodic", "ci-trie", "standard-RareBytesTwo",
];

/// Build the searcher and a haystack "body" of exactly `n` bytes for a cost
/// family. The body shape scales with n: no candidate bytes in its first
/// half, then a false candidate every few bytes so that the search keeps
/// returning to the start state and consulting the prefilter.
pub fn cost_case(family: &str, n: usize, seed: u64) -> Result<(Cfg, Vec<Vec<u8>>, S, Vec<u8>), String> {
    // "overlap-<family>" / "stream-<family>": same shapes, standard semantics
    let (op_kind, family) = if let Some(f) = family.strip_prefix("overlap-") {
        (Some(Kind::Standard), f)
    } else if let Some(f) = family.strip_prefix("stream-") {
        (Some(Kind::Standard), f)
    } else {
        (None, family)
    };
    let mut rng = Rng::new(seed).fork(0xC057);
    let variants = ["Memmem", "StartBytesOne", "StartBytesTwo", "StartBytesThree", "RareBytesOne", "RareBytesTwo", "RareBytesThree", "Packed"];
    let (want, kind) = match family {
        "standard-RareBytesTwo" => ("RareBytesTwo", Kind::Standard),
        f if variants.contains(&f) => (f, op_kind.unwrap_or(Kind::LeftmostFirst)),
        _ => ("", op_kind.unwrap_or(Kind::LeftmostFirst)),
    };
    if !want.is_empty() {
        // find a pattern list that selects the wanted prefilter
        for _ in 0..3000 {
            let (pats, ci) = crate::meta::prefilter_patterns(&mut rng);
            if ci || pats.iter().map(|p| p.len()).sum::<usize>() > 200 {
                continue;
            }
            let cfg = Cfg::new(Imp::TopCnfa, kind);
            if cfg.prefilter_variant(&pats) != want {
                continue;
            }
            let s = cfg.build(&pats)?;
            // candidate bytes: every byte of every pattern is a potential
            // prefilter candidate; the filler is a byte in no pattern
            let mut used = [false; 256];
            for p in &pats {
                for &b in p {
                    used[b as usize] = true;
                }
            }
            let filler = (b'0'..=b'9').chain(0x80..=0xFFu8).find(|&b| !used[b as usize]).ok_or("no filler byte")?;
            let cands: Vec<u8> = (0..=255u8).filter(|&b| used[b as usize]).collect();
            // Second half: a candidate byte every 8 bytes, cycling through all
            // pattern bytes by a counter (not by position), so that haystacks
            // of every size contain every candidate byte with the same density.
            let mut hay = vec![filler; n];
            let mut i = n / 2;
            let mut k = 0usize;
            while i < n {
                hay[i] = cands[k % cands.len()];
                k += 1;
                i += 8;
            }
            return Ok((cfg, pats, s, hay));
        }
        return Err(format!("no pattern list found for prefilter variant {}", want));
    }
    let (pats, hay, ci): (Vec<Vec<u8>>, Vec<u8>, bool) = match family {
        "none-akb" => {
            let k = 200;
            let mut p = vec![b'a'; k];
            p.push(b'b');
            (vec![p, vec![b'a'; 50]], {
                let mut h = vec![b'a'; n];
                for i in (0..n).step_by(997) {
                    h[i] = b'c';
                }
                h
            }, false)
        }
        "none-fib" => {
            let mut a = b"a".to_vec();
            let mut b = b"ab".to_vec();
            while b.len() < 600 {
                let mut c = b.clone();
                c.extend_from_slice(&a);
                a = b;
                b = c;
            }
            let mut p = b.clone();
            p.push(b'c');
            let mut h = b.clone();
            while h.len() < n {
                let t = h.clone();
                h.extend_from_slice(&t);
            }
            h.truncate(n);
            (vec![p, a.clone()], h, false)
        }
        "none-nested" => {
            let k = 120;
            let pats: Vec<Vec<u8>> = (0..k)
                .map(|j| {
                    let mut p = vec![b'a'; k - j];
                    p.push(b'b' + (j % 20) as u8);
                    p
                })
                .collect();
            let mut h = vec![b'a'; n];
            for i in (0..n).step_by(301) {
                h[i] = b'z';
            }
            (pats, h, false)
        }
        "none-periodic" => {
            let mut base: Vec<u8> = vec![];
            for _ in 0..150 {
                base.extend_from_slice(b"ab");
            }
            let mut p1 = base.clone();
            p1.push(b'c');
            let mut p2 = base[1..].to_vec();
            p2.push(b'd');
            ((vec![p1, p2]), (0..n).map(|i| if i % 2 == 0 { b'a' } else { b'b' }).collect(), false)
        }
        "ci-trie" => {
            let w: Vec<u8> = (0..40).map(|i| if i % 2 == 0 { b'a' } else { b'B' }).collect();
            let mut w2 = w.clone();
            w2.push(b'x');
            (vec![w.clone(), w2, w[1..].to_vec()], (0..n).map(|i| if (i / 3) % 2 == 0 { b'A' } else { b'b' }).collect(), true)
        }
        _ => return Err(format!("unknown cost family {}", family)),
    };
    let cfg = Cfg::new(Imp::TopCnfa, kind).ci(ci).pre(false);
    let s = cfg.build(&pats)?;
    Ok((cfg, pats, s, hay))
}

/// Bytes placed before ("span" mode) or after ("tail" mode) the searched span.
/// Large enough that even a single vectorised pass over them (a few
/// instructions per 64 bytes) costs several hundred thousand instructions.
pub const OUTSIDE_BYTES: usize = 8 << 20;

/// `acmon cost <family> <n> <mode> <seed>`: mode full | span | tail | sub.
pub fn cost_main(family: &str, n: usize, mode: &str, seed: u64) -> Result<String, String> {
    let (cfg, pats, s, body) = cost_case(family, n, seed)?;
    let (hay, span) = match mode {
        "full" | "sub" => {
            let l = body.len();
            (body, (0, l))
        }
        "span" => {
            // a long prefix without any candidate byte, then the body
            let filler = body[0];
            let prefix = OUTSIDE_BYTES;
            let mut h = vec![filler; prefix];
            h.extend_from_slice(&body);
            let l = h.len();
            (h, (prefix, l))
        }
        "tail" => {
            // the body first, then a long suffix without any candidate byte;
            // the span covers the body only
            let filler = body[0];
            let n = body.len();
            let mut h = body;
            h.extend(std::iter::repeat(filler).take(OUTSIDE_BYTES));
            (h, (0, n))
        }
        "rfull" => {
            // the two halves swapped: the part with the candidate bytes first,
            // then a half without any (a search that keeps asking the
            // prefilter after it has said "no more candidates" pays here)
            let mut b = body;
            let l = b.len();
            b.rotate_left(l / 2);
            (b, (0, l))
        }
        "single0" | "single1" | "single2" => {
            // Only ONE of the prefilter's candidate bytes occurs (every 8 bytes in
            // the second half), the others never: a prefilter that looks for its
            // bytes one after the other scans far for the absent ones while its
            // answer is always near. The candidate bytes are found by asking the
            // prefilter itself about one-byte haystacks.
            let k = mode.as_bytes()[6] as usize - b'0' as usize;
            let filler = body[0];
            let l = body.len();
            let mut cand: Vec<u8> = vec![];
            if let Ok(n) = cfg.nnfa_builder().build(&pats) {
                use aho_corasick::automaton::Automaton;
                if let Some(pre) = n.prefilter() {
                    for b in 0..=255u8 {
                        let one = [b];
                        if b != filler && !matches!(pre.find_in(&one, aho_corasick::Span { start: 0, end: 1 }), aho_corasick::automaton::Candidate::None) {
                            cand.push(b);
                        }
                    }
                }
            }
            let mut h = vec![filler; l];
            if !cand.is_empty() {
                // (fewer candidate bytes than k+1: take the last one again)
                let x = cand[k.min(cand.len() - 1)];
                let mut i = l / 2;
                while i < l {
                    h[i] = x;
                    i += 8;
                }
            }
            (h, (0, l))
        }
        _ => return Err("mode must be full, rfull, single0..2, span, tail or sub".into()),
    };
    let op = if family.starts_with("overlap-") {
        "overlap"
    } else if family.starts_with("stream-") {
        "stream"
    } else {
        "iter"
    };
    if op == "stream" {
        // a small buffer so that the stream buffer rolls thousands of times
        verif::set_stream_buffer_spare(Some(61));
    }
    let matches = cost_probe_measured(&s, &hay, span, op);
    verif::set_stream_buffer_spare(None);
    Ok(format!(
        "{{\"family\":\"{}\",\"n\":{},\"mode\":\"{}\",\"cfg\":\"{}\",\"patterns\":{},\"matches\":{}}}",
        family, n, mode, cfg.label(), pats.len(), matches
    ))
}
