//! Builder-option matrix and a uniform wrapper over the four ways of using the
//! crate: the top-level `AhoCorasick` and the three low-level automaton types.

use aho_corasick::{
    automaton::{Automaton, OverlappingState},
    dfa, nfa, AhoCorasick, AhoCorasickKind, Anchored, Input, Match,
    MatchError, MatchKind, StartKind,
};

use crate::oracle::{Kind, M};
use crate::util::J;

#[derive(Clone, Copy, Debug, PartialEq, Eq, Hash, PartialOrd, Ord)]
pub enum Imp {
    TopAuto,
    TopNnfa,
    TopCnfa,
    TopDfa,
    LowNnfa,
    LowCnfa,
    LowDfa,
}

impl Imp {
    pub const ALL: [Imp; 7] = [
        Imp::TopAuto,
        Imp::TopNnfa,
        Imp::TopCnfa,
        Imp::TopDfa,
        Imp::LowNnfa,
        Imp::LowCnfa,
        Imp::LowDfa,
    ];
    pub const TOP: [Imp; 4] =
        [Imp::TopAuto, Imp::TopNnfa, Imp::TopCnfa, Imp::TopDfa];
    pub const LOW: [Imp; 3] = [Imp::LowNnfa, Imp::LowCnfa, Imp::LowDfa];
    pub fn name(self) -> &'static str {
        match self {
            Imp::TopAuto => "top-auto",
            Imp::TopNnfa => "top-nnfa",
            Imp::TopCnfa => "top-cnfa",
            Imp::TopDfa => "top-dfa",
            Imp::LowNnfa => "low-nnfa",
            Imp::LowCnfa => "low-cnfa",
            Imp::LowDfa => "low-dfa",
        }
    }
    pub fn from_name(s: &str) -> Option<Imp> {
        Imp::ALL.iter().copied().find(|k| k.name() == s)
    }
    pub fn is_top(self) -> bool {
        matches!(
            self,
            Imp::TopAuto | Imp::TopNnfa | Imp::TopCnfa | Imp::TopDfa
        )
    }
}

#[derive(Clone, Copy, Debug, PartialEq, Eq, Hash, PartialOrd, Ord)]
pub enum SK {
    Unanchored,
    Anchored,
    Both,
}

impl SK {
    pub const ALL: [SK; 3] = [SK::Unanchored, SK::Anchored, SK::Both];
    pub fn name(self) -> &'static str {
        match self {
            SK::Unanchored => "unanchored",
            SK::Anchored => "anchored",
            SK::Both => "both",
        }
    }
    pub fn from_name(s: &str) -> Option<SK> {
        SK::ALL.iter().copied().find(|k| k.name() == s)
    }
    pub fn to_ac(self) -> StartKind {
        match self {
            SK::Unanchored => StartKind::Unanchored,
            SK::Anchored => StartKind::Anchored,
            SK::Both => StartKind::Both,
        }
    }
    pub fn covers(self, anchored: bool) -> bool {
        match self {
            SK::Both => true,
            SK::Unanchored => !anchored,
            SK::Anchored => anchored,
        }
    }
}

pub fn to_mk(k: Kind) -> MatchKind {
    match k {
        Kind::Standard => MatchKind::Standard,
        Kind::LeftmostFirst => MatchKind::LeftmostFirst,
        Kind::LeftmostLongest => MatchKind::LeftmostLongest,
    }
}

#[derive(Clone, Copy, Debug, PartialEq, Eq, Hash, PartialOrd, Ord)]
pub struct Cfg {
    pub imp: Imp,
    pub kind: Kind,
    pub sk: SK,
    pub ci: bool,
    pub pre: bool,
    /// None = leave the builder default.
    pub dense_depth: Option<usize>,
    pub byte_classes: bool,
}

impl Cfg {
    pub fn new(imp: Imp, kind: Kind) -> Cfg {
        Cfg {
            imp,
            kind,
            sk: SK::Unanchored,
            ci: false,
            pre: true,
            dense_depth: None,
            byte_classes: true,
        }
    }
    pub fn sk(mut self, sk: SK) -> Cfg {
        self.sk = sk;
        self
    }
    pub fn ci(mut self, yes: bool) -> Cfg {
        self.ci = yes;
        self
    }
    pub fn pre(mut self, yes: bool) -> Cfg {
        self.pre = yes;
        self
    }
    pub fn dd(mut self, d: Option<usize>) -> Cfg {
        self.dense_depth = d;
        self
    }
    pub fn bc(mut self, yes: bool) -> Cfg {
        self.byte_classes = yes;
        self
    }
    pub fn imp(mut self, imp: Imp) -> Cfg {
        self.imp = imp;
        self
    }

    /// Does a searcher built with this configuration accept a search with
    /// the given anchoring? (Low-level NFAs always support both modes; the
    /// DFA and the top-level searcher go by their start kind.)
    pub fn supports(&self, anchored: bool) -> bool {
        match self.imp {
            Imp::LowNnfa | Imp::LowCnfa => true,
            _ => self.sk.covers(anchored),
        }
    }

    pub fn label(&self) -> String {
        format!(
            "{}/{}/{}{}{}{}{}",
            self.imp.name(),
            self.kind.name(),
            self.sk.name(),
            if self.ci { "/ci" } else { "" },
            if self.pre { "/pre" } else { "/nopre" },
            match self.dense_depth {
                None => String::new(),
                Some(d) => format!("/dd{}", d),
            },
            if self.byte_classes { "" } else { "/nobc" },
        )
    }

    pub fn to_json(&self) -> J {
        J::obj()
            .with("imp", J::s(self.imp.name()))
            .with("kind", J::s(self.kind.name()))
            .with("sk", J::s(self.sk.name()))
            .with("ci", J::Bool(self.ci))
            .with("pre", J::Bool(self.pre))
            .with(
                "dense_depth",
                match self.dense_depth {
                    None => J::Null,
                    Some(d) => J::i(d),
                },
            )
            .with("byte_classes", J::Bool(self.byte_classes))
    }

    pub fn from_json(j: &J) -> Result<Cfg, String> {
        let gs = |k: &str| -> Result<&str, String> {
            j.get(k).and_then(|v| v.as_str()).ok_or(format!("cfg.{}", k))
        };
        let gb = |k: &str| -> Result<bool, String> {
            j.get(k).and_then(|v| v.as_bool()).ok_or(format!("cfg.{}", k))
        };
        Ok(Cfg {
            imp: Imp::from_name(gs("imp")?).ok_or("imp")?,
            kind: Kind::from_name(gs("kind")?).ok_or("kind")?,
            sk: SK::from_name(gs("sk")?).ok_or("sk")?,
            ci: gb("ci")?,
            pre: gb("pre")?,
            dense_depth: j.get("dense_depth").and_then(|v| v.as_usize()),
            byte_classes: gb("byte_classes")?,
        })
    }

    pub fn nnfa_builder(&self) -> nfa::noncontiguous::Builder {
        let mut b = nfa::noncontiguous::Builder::new();
        b.match_kind(to_mk(self.kind))
            .ascii_case_insensitive(self.ci)
            .prefilter(self.pre);
        if let Some(d) = self.dense_depth {
            b.dense_depth(d);
        }
        b
    }

    pub fn cnfa_builder(&self) -> nfa::contiguous::Builder {
        let mut b = nfa::contiguous::Builder::new();
        b.match_kind(to_mk(self.kind))
            .ascii_case_insensitive(self.ci)
            .prefilter(self.pre)
            .byte_classes(self.byte_classes);
        if let Some(d) = self.dense_depth {
            b.dense_depth(d);
        }
        b
    }

    pub fn dfa_builder(&self) -> dfa::Builder {
        let mut b = dfa::Builder::new();
        b.match_kind(to_mk(self.kind))
            .ascii_case_insensitive(self.ci)
            .prefilter(self.pre)
            .start_kind(self.sk.to_ac())
            .byte_classes(self.byte_classes);
        b
    }

    pub fn build(&self, pats: &[Vec<u8>]) -> Result<S, String> {
        match self.imp {
            // (every second low-level searcher is built by a clone of its builder)
            Imp::LowNnfa => if pats.len() % 2 == 1 { self.nnfa_builder().clone().build(pats) } else { self.nnfa_builder().build(pats) }
                .map(S::N)
                .map_err(|e| e.to_string()),
            Imp::LowCnfa => if pats.len() % 2 == 1 { self.cnfa_builder().clone().build(pats) } else { self.cnfa_builder().build(pats) }
                .map(S::C)
                .map_err(|e| e.to_string()),
            Imp::LowDfa => if pats.len() % 2 == 1 { self.dfa_builder().clone().build(pats) } else { self.dfa_builder().build(pats) }
                .map(S::D)
                .map_err(|e| e.to_string()),
            _ => {
                let mut b = AhoCorasick::builder();
                // Half of all configurations reach the builder with a HISTORY:
                // every option is first set to another value (in an order that
                // depends on the configuration); only the last call per option
                // may count, whatever the other options were at the time.
                let h = self.kind as usize * 7 + self.sk as usize * 5 + self.ci as usize * 3 + self.pre as usize + self.byte_classes as usize * 11 + (self.dense_depth.unwrap_or(9) % 1000) + self.imp as usize * 13;
                if h % 2 == 1 {
                    let other_kind = [AhoCorasickKind::NoncontiguousNFA, AhoCorasickKind::ContiguousNFA, AhoCorasickKind::DFA][h % 3];
                    let steps: [u8; 6] = [[0, 1, 2, 3, 4, 5], [5, 1, 0, 4, 3, 2], [2, 5, 4, 1, 0, 3]][(h / 2) % 3];
                    for st in steps {
                        match st {
                            0 => {
                                b.match_kind(to_mk(Kind::ALL[(self.kind as usize + 1) % 3]));
                            }
                            1 => {
                                b.start_kind(SK::ALL[(self.sk as usize + 1 + h % 2) % 3].to_ac());
                            }
                            2 => {
                                b.ascii_case_insensitive(!self.ci);
                            }
                            3 => {
                                b.prefilter(!self.pre);
                            }
                            4 => {
                                b.byte_classes(!self.byte_classes);
                            }
                            _ => {
                                b.kind(Some(other_kind));
                            }
                        }
                    }
                    if h % 3 == 0 {
                        // the wanted start kind while another automaton kind is
                        // still selected, the wanted automaton kind afterwards
                        b.start_kind(self.sk.to_ac());
                    }
                }
                b.match_kind(to_mk(self.kind))
                    .start_kind(self.sk.to_ac())
                    .ascii_case_insensitive(self.ci)
                    .prefilter(self.pre)
                    .byte_classes(self.byte_classes)
                    .kind(match self.imp {
                        Imp::TopAuto => None,
                        Imp::TopNnfa => {
                            Some(AhoCorasickKind::NoncontiguousNFA)
                        }
                        Imp::TopCnfa => Some(AhoCorasickKind::ContiguousNFA),
                        Imp::TopDfa => Some(AhoCorasickKind::DFA),
                        _ => unreachable!(),
                    });
                if let Some(d) = self.dense_depth {
                    b.dense_depth(d);
                }
                // (builders are values: every third configuration is built by a
                // CLONE of its configured builder)
                if h % 3 == 1 {
                    let b2 = b.clone();
                    drop(b);
                    return b2.build(pats).map(S::Top).map_err(|e| e.to_string());
                }
                b.build(pats).map(S::Top).map_err(|e| e.to_string())
            }
        }
    }

    /// Name of the prefilter variant a searcher with this configuration
    /// uses ("none" when there is none). The prefilter is always built by the
    /// noncontiguous NFA builder and then shared, so this asks a noncontiguous
    /// NFA built with the same options.
    pub fn prefilter_variant(&self, pats: &[Vec<u8>]) -> String {
        if !self.pre {
            return "none".to_string();
        }
        match self.nnfa_builder().build(pats) {
            Err(_) => "none".to_string(),
            Ok(n) => prefilter_name(n.prefilter(), pats),
        }
    }
}

/// Which prefilter a searcher uses, decided by how the prefilter BEHAVES (type
/// names in Debug output are an implementation detail): a prefilter that
/// confirms matches itself is "Memmem" (one pattern) or "Packed"; otherwise the
/// number of candidate bytes (asked about one-byte haystacks) gives One / Two /
/// Three, and it is a rare-byte prefilter if it reports a position before the
/// byte it found, or if its bytes are not the patterns' first bytes.
pub fn prefilter_name(p: Option<&aho_corasick::automaton::Prefilter>, pats: &[Vec<u8>]) -> String {
    use aho_corasick::automaton::Candidate;
    use aho_corasick::Span;
    let p = match p {
        None => return "none".to_string(),
        Some(p) => p,
    };
    if let Some(q) = pats.iter().find(|q| !q.is_empty()) {
        if let Candidate::Match(_) = p.find_in(q, Span { start: 0, end: q.len() }) {
            return if pats.len() == 1 { "Memmem" } else { "Packed" }.to_string();
        }
    }
    let mut cand: Vec<u8> = vec![];
    for b in 0..=255u8 {
        let one = [b];
        if !matches!(p.find_in(&one, Span { start: 0, end: 1 }), Candidate::None) {
            cand.push(b);
        }
    }
    if cand.is_empty() || cand.len() > 3 {
        return "unknown".to_string();
    }
    let fill = (0..=255u8).find(|b| !cand.contains(b)).unwrap_or(0);
    let mut rare = false;
    for &b in &cand {
        let hay = [fill, fill, fill, b];
        if let Candidate::PossibleStartOfMatch(i) = p.find_in(&hay, Span { start: 0, end: 4 }) {
            if i < 3 {
                rare = true;
            }
        }
    }
    if !rare {
        // offsets all zero: the same behaviour as a start-byte prefilter; it is
        // one if its bytes are exactly the first bytes (with their case partners)
        let fold = |b: u8| b.to_ascii_lowercase();
        let firsts: std::collections::BTreeSet<u8> = pats.iter().filter_map(|q| q.first().copied()).map(fold).collect();
        let cands: std::collections::BTreeSet<u8> = cand.iter().copied().map(fold).collect();
        rare = firsts != cands;
    }
    format!("{}{}", if rare { "RareBytes" } else { "StartBytes" }, ["One", "Two", "Three"][cand.len() - 1])
}

/// The first disagreement among the accessors of a `Match`, `Span` or
/// `Input` handed out by the crate (see `mm` / `via_setters`); turned into a
/// violation when the monitor's report is written.
pub static ACCESSOR_MISMATCH: std::sync::Mutex<Option<String>> = std::sync::Mutex::new(None);
thread_local! {
    /// (per thread, so that the hot paths of the multi-threaded monitors do not share a counter)
    pub static ACCESSOR_CHECKS: std::cell::Cell<u64> = const { std::cell::Cell::new(0) };
}

#[cold]
fn accessor_mismatch(d: String) {
    if let Ok(mut g) = ACCESSOR_MISMATCH.lock() {
        if g.is_none() {
            *g = Some(d);
        }
    }
}

/// Every monitor reads a reported match through this function: pattern, start
/// and end are what the oracles compare; the other accessors of `Match` and
/// of its `Span` are views of the same three numbers and must say the same.
#[inline]
pub fn mm(m: Match) -> M {
    let (p, s, e) = (m.pattern().as_usize(), m.start(), m.end());
    ACCESSOR_CHECKS.with(|c| c.set(c.get() + 1));
    let sp = m.span();
    let ok = m.range() == (s..e)
        && sp.start == s
        && sp.end == e
        && sp.range() == (s..e)
        && std::ops::Range::<usize>::from(sp) == (s..e)
        && aho_corasick::Span::from(s..e) == sp
        && sp == (s..e)
        && (s > e || (m.len() == e - s && sp.len() == e - s))
        && m.is_empty() == (s >= e)
        && sp.is_empty() == (s >= e)
        && (s >= e || (sp.contains(s) && sp.contains(e - 1)))
        && m.pattern().as_u32() as usize == p
        && m.pattern().as_u64() as usize == p
        && m.pattern().as_i32() as usize == p
        && e.checked_add(3).map_or(true, |e3| {
            let o = m.offset(3);
            (o.pattern().as_usize(), o.start(), o.end()) == (p, s + 3, e3) && sp.offset(3) == (s + 3..e3)
        })
        && (s > e || (aho_corasick::Match::new(m.pattern(), s..e) == m && aho_corasick::Match::must(p, sp) == m));
    if !ok {
        accessor_mismatch(format!(
            "accessors of a reported Match disagree: pattern()/start()/end() = {:?}, range() = {:?}, span() = {:?}, len() = {}, is_empty() = {}, offset(3) = {:?}",
            (p, s, e), m.range(), sp, m.len(), m.is_empty(), m.offset(3)
        ));
    }
    (p, s, e)
}

pub fn anch(a: bool) -> Anchored {
    if a {
        Anchored::Yes
    } else {
        Anchored::No
    }
}

/// What the consuming `Iterator` methods of the crate's non-overlapping
/// iterator (and `count()` of the overlapping one) said about one search.
#[derive(Debug, PartialEq)]
pub struct IterDigest {
    pub count: usize,
    pub last: Option<M>,
    pub nth: Option<M>,
    pub ocount: Option<usize>,
    pub via_for_each: Vec<M>,
    pub direct_for_each: Vec<M>,
    pub via_fold: Vec<M>,
    pub hint_ok: bool,
}

/// A built searcher of any flavour.
pub enum S {
    Top(AhoCorasick),
    N(nfa::noncontiguous::NFA),
    C(nfa::contiguous::NFA),
    D(dfa::DFA),
}

#[macro_export]
macro_rules! with_low {
    ($s:expr, $a:ident => $e:expr, top $t:ident => $te:expr) => {
        match $s {
            $crate::cfg::S::Top($t) => $te,
            $crate::cfg::S::N($a) => $e,
            $crate::cfg::S::C($a) => $e,
            $crate::cfg::S::D($a) => $e,
        }
    };
}

/// Which of the equivalent entry points a call goes through. The crate offers
/// every search several times (fallible `try_*` and infallible wrappers;
/// `Input` built with the builder-style methods or with the setters); the
/// monitors' oracles do not care which one produced an answer, so the wrapper
/// rotates through them, chosen by a function of the input (so that a replay
/// of the same case takes the same route).
///   0: `try_*` with the input as given
///   1: `try_*` with the input rebuilt through `set_span/set_anchored/set_earliest`;
///      low-level automata are used through the blanket `impl Automaton for &A`
///   2: the infallible twin (top-level searcher, only where the configuration
///      supports the call - otherwise 0), input rebuilt through
///      `set_start/set_end`/`set_range`
fn route(input: &Input<'_>) -> usize {
    let sp = input.get_span();
    (input.haystack().len().wrapping_mul(7) ^ sp.start.wrapping_mul(3) ^ sp.end.wrapping_mul(5) ^ (input.get_earliest() as usize)) % 3
}

fn via_setters<'h>(input: &Input<'h>, alt: bool) -> Input<'h> {
    // (`Input::haystack` ties its result to the borrow, so start from a clone
    // reset to what `Input::new` gives)
    let mut i = input.clone();
    let sp = input.get_span();
    let len = input.haystack().len();
    i.set_span(0..len);
    // ... and then used for something else first: an `Input` object may be
    // re-configured any number of times, and only the last setting counts
    // - to the LEFT of the wanted span, or, where the wanted span is then set
    // by one call (`set_span`/`set_range`; the one-sided setters are checked
    // against the other side's current value, so they need the left variant),
    // to the RIGHT of it with a gap: an object that has served a search
    // further along the haystack and is moved back
    let one_call = !alt || sp.start % 2 == 0;
    if one_call && sp.end % 2 == 1 {
        if sp.end % 4 == 1 {
            i.set_start(len);
        } else {
            i.set_span((len - len / 3)..len);
        }
    } else {
        i.set_end(len / 2);
        i.set_start(1.min(len / 2));
    }
    i.set_anchored(if input.get_anchored().is_anchored() { Anchored::No } else { Anchored::Yes });
    i.set_earliest(!input.get_earliest());
    // the setters are independent of each other, so any order must do
    let order: [u8; 3] = match sp.end % 3 {
        0 => [0, 1, 2],
        1 => [2, 1, 0],
        _ => [1, 0, 2],
    };
    for what in order {
        match what {
            0 => {
                if !alt {
                    // (the `set_*` methods and the consuming builder-style
                    // methods are separate code)
                    if sp.end % 2 == 0 {
                        i.set_span(sp);
                    } else {
                        i = i.span(sp);
                    }
                } else if sp.start % 2 == 0 && sp.start % 16 == 8 {
                    i = i.range(sp.start..sp.end);
                } else if sp.start % 2 == 0 {
                    // every spelling of a range; open ends mean the haystack's ends;
                    // `RangeBounds` also admits explicit bound pairs, the only way
                    // to write an EXCLUDED start
                    use std::ops::Bound;
                    if sp.start >= 1 && sp.start % 4 == 2 {
                        i.set_range((Bound::Excluded(sp.start - 1), Bound::Excluded(sp.end)));
                    } else if sp.start % 4 == 0 && sp.end > sp.start && sp.end % 3 == 0 {
                        i.set_range((Bound::Included(sp.start), Bound::Included(sp.end - 1)));
                    } else if sp.start >= 1 && sp.end == len && sp.start % 8 == 6 {
                        i.set_range((Bound::Excluded(sp.start - 1), Bound::Unbounded));
                    } else if sp.end == len && sp.start == 0 && len % 2 == 0 {
                        i.set_range(..);
                    } else if sp.end == len {
                        i.set_range(sp.start..);
                    } else if sp.start == 0 {
                        i.set_range(..sp.end);
                    } else if sp.end > sp.start && sp.end % 2 == 1 {
                        i.set_range(sp.start..=sp.end - 1);
                    } else {
                        i.set_range(sp.start..sp.end);
                    }
                } else if (sp.start / 2) % 2 == 0 {
                    // end first: the current start is 0 or 1, so start <= end + 1
                    // holds after the first call, and the wanted span is valid
                    i.set_end(sp.end);
                    i.set_start(sp.start);
                } else {
                    // start first (after widening), then the end - a done span
                    // (start == end + 1) is then produced by `set_end`
                    i.set_end(len);
                    i.set_start(sp.start);
                    i.set_end(sp.end);
                }
            }
            1 => {
                if (sp.start + sp.end) % 2 == 0 {
                    i.set_anchored(input.get_anchored())
                } else {
                    i = i.anchored(input.get_anchored())
                }
            }
            _ => {
                if (sp.start + sp.end / 2) % 2 == 0 {
                    i.set_earliest(input.get_earliest())
                } else {
                    i = i.earliest(input.get_earliest())
                }
            }
        }
    }
    // the getters of the re-configured object say what was set last
    ACCESSOR_CHECKS.with(|c| c.set(c.get() + 1));
    let ok = i.start() == sp.start
        && i.end() == sp.end
        && i.get_span() == sp
        && i.get_range() == (sp.start..sp.end)
        && i.is_done() == (sp.start > sp.end)
        && i.get_anchored() == input.get_anchored()
        && i.get_earliest() == input.get_earliest()
        && i.haystack().len() == len
        && i.haystack().as_ptr() == input.haystack().as_ptr();
    if !ok {
        accessor_mismatch(format!(
            "getters of a re-configured Input disagree with its setters: wanted span {:?} anchored {:?} earliest {}, object says start() = {}, end() = {}, get_span() = {:?}, get_range() = {:?}, is_done() = {}, get_anchored() = {:?}, get_earliest() = {}",
            sp, input.get_anchored(), input.get_earliest(), i.start(), i.end(), i.get_span(), i.get_range(), i.is_done(), i.get_anchored(), i.get_earliest()
        ));
    }
    i
}

/// A whole-haystack, unanchored, non-earliest request.
fn plain(input: &Input<'_>) -> bool {
    let sp = input.get_span();
    sp.start == 0 && sp.end == input.haystack().len() && !input.get_anchored().is_anchored() && !input.get_earliest()
}

fn supported(t: &AhoCorasick, input: &Input<'_>, overlapping: bool) -> bool {
    let anchored = input.get_anchored().is_anchored();
    let sk_ok = match t.start_kind() {
        StartKind::Both => true,
        StartKind::Unanchored => !anchored,
        StartKind::Anchored => anchored,
    };
    sk_ok && (!overlapping || t.match_kind() == MatchKind::Standard)
}

/// Like `with_low!`, but the low-level automaton is used through a reference
/// *type*: `$a` is bound to `&&T`, so method calls resolve to the crate's
/// blanket `impl Automaton for &A` (what generic code taking `A: Automaton`
/// by value gets when handed `&nfa`), whose provided methods run on top of
/// the forwarding methods of that impl.
#[macro_export]
macro_rules! with_low_ref {
    ($s:expr, $a:ident => $e:expr, top $t:ident => $te:expr) => {
        match $s {
            $crate::cfg::S::Top($t) => $te,
            $crate::cfg::S::N(x) => {
                let $a = &x;
                $e
            }
            $crate::cfg::S::C(x) => {
                let $a = &x;
                $e
            }
            $crate::cfg::S::D(x) => {
                let $a = &x;
                $e
            }
        }
    };
}

impl S {
    /// `Input::earliest` is documented to have no effect under standard
    /// semantics and in overlapping searches (both are "earliest" anyway):
    /// every other such request is made with the flag set.
    fn noop_earliest<'h>(&self, input: Input<'h>, overlapping: bool) -> Input<'h> {
        let sp = input.get_span();
        if input.get_earliest() || (input.haystack().len() ^ sp.start ^ (sp.end >> 1)) % 2 == 0 {
            return input;
        }
        let standard = overlapping
            || with_low!(self, a => a.match_kind() == MatchKind::Standard, top t => t.match_kind() == MatchKind::Standard);
        if standard {
            input.earliest(true)
        } else {
            input
        }
    }

    pub fn try_find(&self, input: Input<'_>) -> Result<Option<M>, MatchError> {
        let input = self.noop_earliest(input, false);
        let r = route(&input);
        match self {
            // (a plain whole-haystack request goes in as `&[u8]` / `&str`, the way
            // most callers write it; the conversion to `Input` is the crate's)
            S::Top(t) if r == 2 && supported(t, &input, false) && plain(&input) => {
                let h = input.haystack();
                match std::str::from_utf8(h) {
                    Ok(st) if h.len() % 2 == 0 => Ok(t.find(st).map(mm)),
                    _ => Ok(t.find(h).map(mm)),
                }
            }
            S::Top(t) if r == 2 && supported(t, &input, false) => Ok(t.find(via_setters(&input, true)).map(mm)),
            _ => {
                let input = if r == 0 { input } else { via_setters(&input, r == 2) };
                if r == 1 {
                    with_low_ref!(self, a => a.try_find(&input).map(|o| o.map(mm)),
                              top t => t.try_find(input).map(|o| o.map(mm)))
                } else {
                    with_low!(self, a => a.try_find(&input).map(|o| o.map(mm)),
                              top t => t.try_find(input).map(|o| o.map(mm)))
                }
            }
        }
    }

    pub fn try_find_iter(
        &self,
        input: Input<'_>,
    ) -> Result<Vec<M>, MatchError> {
        // The iterator is bounded: at most span length + 2 items can ever be
        // legal (every match either consumes a byte or is empty at a new offset).
        let cap = input.get_span().len() + 3;
        let input = self.noop_earliest(input, false);
        let r = route(&input);
        match self {
            S::Top(t) if r == 2 && supported(t, &input, false) && plain(&input) => {
                Ok(t.find_iter(input.haystack()).take(cap).map(mm).collect())
            }
            S::Top(t) if r == 2 && supported(t, &input, false) => {
                Ok(t.find_iter(via_setters(&input, true)).take(cap).map(mm).collect())
            }
            _ => {
                let input = if r == 0 { input } else { via_setters(&input, r == 2) };
                if r == 1 {
                    with_low_ref!(self,
                        a => a.try_find_iter(input).map(|it| it.take(cap).map(mm).collect()),
                        top t => t.try_find_iter(input).map(|it| it.take(cap).map(mm).collect()))
                } else {
                    with_low!(self,
                        a => a.try_find_iter(input).map(|it| it.take(cap).map(mm).collect()),
                        top t => t.try_find_iter(input).map(|it| it.take(cap).map(mm).collect()))
                }
            }
        }
    }

    pub fn try_find_overlapping(
        &self,
        input: Input<'_>,
        state: &mut OverlappingState,
    ) -> Result<(), MatchError> {
        let input = self.noop_earliest(input, true);
        let r = route(&input);
        match self {
            S::Top(t) if r == 2 && supported(t, &input, true) => {
                t.find_overlapping(via_setters(&input, true), state);
                Ok(())
            }
            _ => {
                let input = if r == 0 { input } else { via_setters(&input, r == 2) };
                if r == 1 {
                    with_low_ref!(self, a => a.try_find_overlapping(&input, state),
                              top t => t.try_find_overlapping(input, state))
                } else {
                    with_low!(self, a => a.try_find_overlapping(&input, state),
                              top t => t.try_find_overlapping(input, state))
                }
            }
        }
    }

    pub fn try_find_overlapping_iter(
        &self,
        input: Input<'_>,
        cap: usize,
    ) -> Result<Vec<M>, MatchError> {
        let input = self.noop_earliest(input, true);
        let r = route(&input);
        match self {
            // (an anchored overlapping *iterator* is rejected whatever the configuration)
            S::Top(t) if r == 2 && supported(t, &input, true) && !input.get_anchored().is_anchored() => {
                Ok(t.find_overlapping_iter(via_setters(&input, true)).take(cap).map(mm).collect())
            }
            _ => {
                let input = if r == 0 { input } else { via_setters(&input, r == 2) };
                if r == 1 {
                    with_low_ref!(self,
                        a => a.try_find_overlapping_iter(input).map(|it| it.take(cap).map(mm).collect()),
                        top t => t.try_find_overlapping_iter(input).map(|it| it.take(cap).map(mm).collect()))
                } else {
                    with_low!(self,
                        a => a.try_find_overlapping_iter(input).map(|it| it.take(cap).map(mm).collect()),
                        top t => t.try_find_overlapping_iter(input).map(|it| it.take(cap).map(mm).collect()))
                }
            }
        }
    }

    /// The consuming `Iterator` methods called directly on the crate's
    /// iterators (an iterator type may override any of them): `count()`,
    /// `last()` and `nth(k)` of the non-overlapping iterator, `count()` of the
    /// overlapping one. Only for inputs the configuration accepts.
    pub fn iter_methods(&self, input: Input<'_>, k: usize, overlapping: bool) -> Result<IterDigest, MatchError> {
        let (i1, i2, i3, i4, i5, i6, i7) = (input.clone(), input.clone(), input.clone(), input.clone(), input.clone(), input.clone(), input);
        let count = with_low!(self, a => a.try_find_iter(i1).map(|it| it.count()), top t => t.try_find_iter(i1).map(|it| it.count()))?;
        let last = with_low!(self, a => a.try_find_iter(i2).map(|it| it.last().map(mm)), top t => t.try_find_iter(i2).map(|it| it.last().map(mm)))?;
        let nth = with_low!(self, a => a.try_find_iter(i3).map(|mut it| it.nth(k).map(mm)), top t => t.try_find_iter(i3).map(|mut it| it.nth(k).map(mm)))?;
        let cap = i5.get_span().len() + 3;
        let mut via_for_each: Vec<M> = vec![];
        with_low!(self,
            a => a.try_find_iter(i5).map(|it| it.take(cap).for_each(|m| via_for_each.push(mm(m)))),
            top t => t.try_find_iter(i5).map(|it| it.take(cap).for_each(|m| via_for_each.push(mm(m)))))?;
        // for_each / fold directly on the iterator (no adaptor in between)
        let mut direct_for_each: Vec<M> = vec![];
        with_low!(self,
            a => a.try_find_iter(i6).map(|it| it.for_each(|m| if direct_for_each.len() < cap { direct_for_each.push(mm(m)) })),
            top t => t.try_find_iter(i6).map(|it| it.for_each(|m| if direct_for_each.len() < cap { direct_for_each.push(mm(m)) })))?;
        let (via_fold, hint): (Vec<M>, (usize, Option<usize>)) = with_low!(self,
            a => a.try_find_iter(i7).map(|it| { let h = it.size_hint(); (it.fold(vec![], |mut v, m| { if v.len() < cap { v.push(mm(m)); } v }), h) }),
            top t => t.try_find_iter(i7).map(|it| { let h = it.size_hint(); (it.fold(vec![], |mut v, m| { if v.len() < cap { v.push(mm(m)); } v }), h) }))?;
        let ocount = if overlapping {
            Some(with_low!(self, a => a.try_find_overlapping_iter(i4).map(|it| it.count()), top t => t.try_find_overlapping_iter(i4).map(|it| it.count()))?)
        } else {
            None
        };
        let hint_ok = hint.0 <= count && hint.1.map_or(true, |u| count <= u);
        Ok(IterDigest { count, last, nth, ocount, via_for_each, direct_for_each, via_fold, hint_ok })
    }

    pub fn patterns_len(&self) -> usize {
        with_low!(self, a => a.patterns_len(), top t => t.patterns_len())
    }

    pub fn min_pattern_len(&self) -> usize {
        with_low!(self, a => a.min_pattern_len(), top t => t.min_pattern_len())
    }

    pub fn max_pattern_len(&self) -> usize {
        with_low!(self, a => a.max_pattern_len(), top t => t.max_pattern_len())
    }

    pub fn debug_string(&self) -> String {
        with_low!(self, a => format!("{:?}", a), top t => format!("{:?}", t))
    }
}
