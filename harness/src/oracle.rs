//! Naive reference semantics. Quadratic, table-free, shares nothing with the
//! automata: a pattern occurs at `i` iff the bytes compare equal (after ASCII
//! folding of A-Z to a-z on both sides when case-insensitive).

#[derive(Clone, Copy, Debug, PartialEq, Eq, Hash, PartialOrd, Ord)]
pub enum Kind {
    Standard,
    LeftmostFirst,
    LeftmostLongest,
}

impl Kind {
    pub const ALL: [Kind; 3] =
        [Kind::Standard, Kind::LeftmostFirst, Kind::LeftmostLongest];
    pub fn name(self) -> &'static str {
        match self {
            Kind::Standard => "standard",
            Kind::LeftmostFirst => "leftmost-first",
            Kind::LeftmostLongest => "leftmost-longest",
        }
    }
    pub fn from_name(s: &str) -> Option<Kind> {
        Kind::ALL.iter().copied().find(|k| k.name() == s)
    }
    pub fn is_leftmost(self) -> bool {
        self != Kind::Standard
    }
}

/// (pattern index, start, end)
pub type M = (usize, usize, usize);

#[inline]
pub fn fold(b: u8) -> u8 {
    if b >= b'A' && b <= b'Z' {
        b + 32
    } else {
        b
    }
}

pub fn fold_vec(b: &[u8]) -> Vec<u8> {
    b.iter().map(|&x| fold(x)).collect()
}

pub struct Oracle<'a> {
    pub pats: &'a [Vec<u8>],
    pub ci: bool,
    pub kind: Kind,
}

impl<'a> Oracle<'a> {
    pub fn new(pats: &'a [Vec<u8>], ci: bool, kind: Kind) -> Oracle<'a> {
        Oracle { pats, ci, kind }
    }

    /// Does pattern `p` occur at offset `i` of `hay`, entirely before `end`?
    #[inline]
    pub fn occ(&self, hay: &[u8], p: usize, i: usize, end: usize) -> bool {
        let pat = &self.pats[p];
        if i + pat.len() > end {
            return false;
        }
        let w = &hay[i..i + pat.len()];
        if self.ci {
            w.iter().zip(pat.iter()).all(|(&a, &b)| fold(a) == fold(b))
        } else {
            w == &pat[..]
        }
    }

    /// A single non-overlapping search on hay[start..end] (start <= end).
    pub fn find(
        &self,
        hay: &[u8],
        start: usize,
        end: usize,
        anchored: bool,
    ) -> Option<M> {
        if start > end {
            return None;
        }
        match self.kind {
            Kind::LeftmostFirst => {
                let last = if anchored { start } else { end };
                for i in start..=last {
                    for p in 0..self.pats.len() {
                        if self.occ(hay, p, i, end) {
                            return Some((p, i, i + self.pats[p].len()));
                        }
                    }
                }
                None
            }
            Kind::LeftmostLongest => {
                let last = if anchored { start } else { end };
                for i in start..=last {
                    let mut best: Option<usize> = None;
                    for p in 0..self.pats.len() {
                        if self.occ(hay, p, i, end) {
                            match best {
                                Some(b)
                                    if self.pats[b].len()
                                        >= self.pats[p].len() => {}
                                _ => best = Some(p),
                            }
                        }
                    }
                    if let Some(p) = best {
                        return Some((p, i, i + self.pats[p].len()));
                    }
                }
                None
            }
            Kind::Standard => {
                // minimum of (end, -len, index)
                let mut best: Option<M> = None;
                let last = if anchored { start } else { end };
                for i in start..=last {
                    // (an occurrence starting after the best end so far cannot
                    // end earlier, nor at the same offset with a greater length)
                    if best.map_or(false, |b| i > b.2) {
                        break;
                    }
                    for p in 0..self.pats.len() {
                        if self.occ(hay, p, i, end) {
                            let m = (p, i, i + self.pats[p].len());
                            best = Some(match best {
                                None => m,
                                Some(b) => {
                                    if key(m) < key(b) {
                                        m
                                    } else {
                                        b
                                    }
                                }
                            });
                        }
                    }
                }
                best
            }
        }
    }

    /// The non-overlapping iterator: repeat `find` from the end of the
    /// previous match; an empty match at the offset where the previous match
    /// ended is not yielded, the search is repeated one byte later instead.
    pub fn iter(
        &self,
        hay: &[u8],
        start: usize,
        end: usize,
        anchored: bool,
    ) -> Vec<M> {
        let mut out = vec![];
        let mut pos = start;
        let mut last_end: Option<usize> = None;
        loop {
            let mut m = match self.find(hay, pos, end, anchored) {
                None => break,
                Some(m) => m,
            };
            if m.1 == m.2 && Some(m.2) == last_end {
                pos += 1;
                if pos > end {
                    break;
                }
                m = match self.find(hay, pos, end, anchored) {
                    None => break,
                    Some(m) => m,
                };
            }
            out.push(m);
            pos = m.2;
            last_end = Some(m.2);
        }
        out
    }

    /// Every occurrence inside the span, ordered by (end, longer first,
    /// supply order). With `anchored`, only those starting at `start`.
    pub fn overlapping(
        &self,
        hay: &[u8],
        start: usize,
        end: usize,
        anchored: bool,
    ) -> Vec<M> {
        let mut out = vec![];
        if start > end {
            return out;
        }
        let last = if anchored { start } else { end };
        for i in start..=last {
            for p in 0..self.pats.len() {
                if self.occ(hay, p, i, end) {
                    out.push((p, i, i + self.pats[p].len()));
                }
            }
        }
        out.sort_by_key(|&m| key(m));
        out
    }

    /// Does any pattern occur in the span (respecting anchoring)?
    pub fn exists(
        &self,
        hay: &[u8],
        start: usize,
        end: usize,
        anchored: bool,
    ) -> bool {
        if start > end {
            return false;
        }
        let last = if anchored { start } else { end };
        for i in start..=last {
            for p in 0..self.pats.len() {
                if self.occ(hay, p, i, end) {
                    return true;
                }
            }
        }
        false
    }

    /// Is (p, s, e) a genuine occurrence inside start..end?
    pub fn genuine(&self, hay: &[u8], m: M, start: usize, end: usize) -> bool {
        let (p, s, e) = m;
        p < self.pats.len()
            && s >= start
            && e <= end
            && s <= e
            && e - s == self.pats[p].len()
            && self.occ(hay, p, s, end)
    }
}

/// Sort key of standard/overlapping semantics: end, then longer first, then
/// supply order.
#[inline]
pub fn key(m: M) -> (usize, isize, usize) {
    (m.2, -((m.2 - m.1) as isize), m.0)
}

#[cfg(test)]
mod tests {
    use super::*;
    fn v(xs: &[&str]) -> Vec<Vec<u8>> {
        xs.iter().map(|s| s.as_bytes().to_vec()).collect()
    }
    #[test]
    fn basics() {
        let p = v(&["abc", ""]);
        let o = Oracle::new(&p, false, Kind::LeftmostFirst);
        assert_eq!(o.find(b"abx", 0, 3, false), Some((1, 0, 0)));
        let p = v(&["b", "abcd", "abc"]);
        let o = Oracle::new(&p, false, Kind::LeftmostFirst);
        assert_eq!(o.find(b"abcd", 0, 3, false), Some((2, 0, 3)));
        let o = Oracle::new(&p, false, Kind::Standard);
        assert_eq!(o.find(b"abcd", 0, 4, false), Some((0, 1, 2)));
        let p = v(&["a", ""]);
        let o = Oracle::new(&p, false, Kind::LeftmostFirst);
        assert_eq!(o.iter(b"a", 0, 1, false), vec![(0, 0, 1)]);
        let p = v(&["", "a"]);
        let o = Oracle::new(&p, false, Kind::LeftmostFirst);
        assert_eq!(o.iter(b"a", 0, 1, false), vec![(0, 0, 0), (0, 1, 1)]);
        let p = v(&["", "ab"]);
        let o = Oracle::new(&p, false, Kind::Standard);
        assert_eq!(
            o.overlapping(b"ab", 0, 2, false),
            vec![(0, 0, 0), (0, 1, 1), (1, 0, 2), (0, 2, 2)]
        );
    }
}
