//! Monitors that walk the *live* automata instead of sampling haystacks:
//!
//! * C16: invariant walk of every state reachable from the start states
//!   (all 256 bytes, both anchoring arguments) + the documented search
//!   recipe compared with the built-in search.
//! * C04: product walk of a reference automaton (noncontiguous NFA, dense
//!   depth 0) against every other representation of the same pattern list:
//!   equal match observables on all reachable state pairs means equal search
//!   results on *every* haystack; plus an end-to-end differential through all
//!   public entry points for what cannot be walked (the top-level searcher).

use std::collections::{HashMap, HashSet, VecDeque};

use aho_corasick::{
    automaton::{Automaton, OverlappingState, StateID},
    Anchored, Input, Match, MatchError, MatchKind,
};

use crate::cfg::{anch, mm, Cfg, Imp, S, SK};
use crate::gen::{self, Profile};
use crate::oracle::{Kind, M};
use crate::report::{pats_from_json, pats_json, pats_show, Ctx, Report, Tier};
use crate::sem::{call, guard};
use crate::util::{hex, show, unhex, Fnv, Rng, J};

const PAIR_CAP: usize = 200_000;

// ------------------------------------------------------------ pattern shapes

/// Fan-outs around every limit of the state encodings: chunks of 4
/// transitions, the sparse/dense switch at 127/128, the kind tags 254/255 and
/// the full 256.
pub const FANOUT: [usize; 22] = [1, 2, 3, 4, 5, 6, 7, 8, 9, 125, 126, 127, 128, 129, 130, 131, 252, 253, 254, 255, 256, 64];

/// One trie node with `n` children below a short prefix (sometimes itself a
/// match state, sometimes with a suffix pattern so that failure links matter).
pub fn wide_node(rng: &mut Rng, n: usize) -> Vec<Vec<u8>> {
    let mut pats: Vec<Vec<u8>> = vec![];
    let plen = if rng.chance(1, 6) { 0 } else { rng.range(1, 3) };
    let prefix = gen::rand_string(rng, b"abAB\x00\xff", plen);
    let first = rng.below(256);
    let step = if rng.chance(1, 2) { 1 } else { 3 };
    for k in 0..n {
        let b = ((first + k * step) % 256) as u8;
        let mut p = prefix.clone();
        p.push(b);
        if rng.chance(1, 5) {
            p.push(*rng.pick(b"xyz"));
        }
        pats.push(p);
    }
    if rng.chance(2, 3) {
        pats.push(prefix.clone()); // the wide node is itself a match state
    }
    if rng.chance(1, 4) {
        // a suffix of the prefix, so failure links matter
        if prefix.len() > 1 {
            pats.push(prefix[1..].to_vec());
        }
    }
    pats
}

/// Pattern lists that stress the representations: wide nodes around the
/// sparse/dense switch, transition counts of every residue mod 4, single
/// children on match states, the empty pattern, many patterns.
pub fn shaped_patterns(rng: &mut Rng, which: usize) -> Vec<Vec<u8>> {
    let mut pats: Vec<Vec<u8>> = vec![];
    match which % 10 {
        0 | 1 | 2 => {
            // one node with N children below a prefix. N sweeps systematically
            // (by the global list index) over the values around every limit of
            // the state encodings: chunks of 4 transitions, the sparse/dense
            // switch at 127/128, the kind tags 254/255 and the full 256.
            let idx = which / 10 * 3 + which % 10;
            let n = if idx % 2 == 0 { FANOUT[(idx / 2) % FANOUT.len()] } else { 1 + rng.below(256) };
            pats = wide_node(rng, n);
        }
        3 => {
            // chain: a, ab, abc ... (match state with exactly one child)
            let n = rng.range(2, 8);
            let s = gen::rand_string(rng, b"abc", n);
            for k in 1..=n {
                if rng.chance(2, 3) {
                    pats.push(s[..k].to_vec());
                }
            }
            pats.push(s[n - 1..].to_vec());
        }
        4 => {
            // every byte is a pattern start (256 byte classes)
            let step = *rng.pick(&[1usize, 2, 5]);
            for b in (0..256).step_by(step) {
                let mut p = vec![b as u8];
                if rng.chance(1, 3) {
                    p.push(*rng.pick(b"ab"));
                }
                pats.push(p);
            }
        }
        5 => {
            // 99/100/101/102 patterns (automatic kind switch)
            let n = *rng.pick(&[99usize, 100, 101, 102]);
            for k in 0..n {
                let mut p = format!("{}", k).into_bytes();
                p.push(b'a' + (k % 3) as u8);
                pats.push(p);
            }
        }
        6 => {
            // nested suffixes / a^k b
            let k = rng.range(2, 12);
            for j in 1..=k {
                let mut p = vec![b'a'; j];
                if rng.chance(1, 2) {
                    p.push(b'b');
                }
                pats.push(p);
            }
            rng.shuffle(&mut pats);
        }
        7 => {
            // degenerate and extreme small collections, in turn
            let all: Vec<Vec<u8>> = (0..=255u8).map(|b| vec![b]).collect();
            let menu: [Vec<Vec<u8>>; 10] = [
                vec![],
                vec![vec![]],
                vec![vec![], vec![]],
                vec![vec![0xFF]],
                vec![vec![0xFF, 0xFF, 0xFF]],
                vec![vec![b'a']],
                all,
                vec![vec![0x00]],
                vec![vec![0x00, 0xFF], vec![0xFF, 0x00]],
                vec![vec![b'a'], vec![b'a'], vec![]],
            ];
            return menu[(which / 10) % menu.len()].clone();
        }
        _ => {
            let (p, _) = gen::patterns(rng, &Profile::default_sem());
            pats = p;
        }
    }
    if rng.chance(1, 10) {
        pats.push(vec![]);
    }
    if rng.chance(1, 6) {
        rng.shuffle(&mut pats);
    }
    pats
}

// ------------------------------------------------------------ C16

pub struct WalkStats {
    pub states: u64,
    pub transitions: u64,
}

fn sid_u(s: StateID) -> u32 {
    s.as_u32()
}

/// Walk every state reachable from both start states and assert the
/// automaton contract. Returns Err(signature, detail) on the first violation.
pub fn invariant_walk<A: Automaton>(
    aut: &A,
    expect_start: (bool, bool), // (unanchored ok, anchored ok)
) -> Result<WalkStats, (String, String)> {
    let mut seen: HashSet<u32> = HashSet::new();
    let mut queue: VecDeque<StateID> = VecDeque::new();
    let mut stats = WalkStats { states: 0, transitions: 0 };
    for (mode, expect) in [(Anchored::No, expect_start.0), (Anchored::Yes, expect_start.1)] {
        match aut.start_state(mode) {
            Ok(s) => {
                if !expect {
                    return Err((
                        "start_state:unexpected_ok".into(),
                        format!("start_state({:?}) succeeded for an unsupported anchoring", mode),
                    ));
                }
                if seen.insert(sid_u(s)) {
                    queue.push_back(s);
                }
            }
            Err(e) => {
                if expect {
                    return Err((
                        "start_state:unexpected_err".into(),
                        format!("start_state({:?}) failed for a supported anchoring: {}", mode, e),
                    ));
                }
            }
        }
    }
    let npat = aut.patterns_len();
    while let Some(s) = queue.pop_front() {
        stats.states += 1;
        let dead = aut.is_dead(s);
        let mat = aut.is_match(s);
        let special = aut.is_special(s);
        let start = aut.is_start(s);
        if (dead || mat) && !special {
            return Err((
                "special:not_flagged".into(),
                format!("state {} is dead={} match={} but is_special is false", sid_u(s), dead, mat),
            ));
        }
        if special && !(dead || mat || start) {
            return Err((
                "special:unexplained".into(),
                format!("state {} is special but neither dead, match nor start", sid_u(s)),
            ));
        }
        if mat {
            let n = aut.match_len(s);
            if n == 0 {
                return Err((
                    "match:empty_list".into(),
                    format!("match state {} has an empty match list", sid_u(s)),
                ));
            }
            for i in 0..n {
                let p = aut.match_pattern(s, i).as_usize();
                if p >= npat {
                    return Err((
                        "match:bad_pattern_id".into(),
                        format!("match state {} lists pattern {} >= {}", sid_u(s), p, npat),
                    ));
                }
            }
        }
        for mode in [Anchored::No, Anchored::Yes] {
            for b in 0..=255u8 {
                let t = aut.next_state(mode, s, b);
                stats.transitions += 1;
                if dead && !aut.is_dead(t) {
                    return Err((
                        "dead:not_absorbing".into(),
                        format!(
                            "dead state {} moves to non-dead state {} on byte {:#04x} ({:?})",
                            sid_u(s), sid_u(t), b, mode
                        ),
                    ));
                }
                if seen.insert(sid_u(t)) {
                    queue.push_back(t);
                }
            }
        }
    }
    Ok(stats)
}

/// The search routine from the `Automaton` trait documentation, verbatim
/// except that the automaton is taken by reference.
pub fn recipe_find<A: Automaton>(
    aut: &A,
    haystack: &[u8],
) -> Result<Option<Match>, MatchError> {
    let mut sid = aut.start_state(Anchored::No)?;
    let mut at = 0;
    let mut mat = None;
    let get_match = |sid, at: usize| {
        let pid = aut.match_pattern(sid, 0);
        let len = aut.pattern_len(pid);
        Match::new(pid, (at - len)..at)
    };
    // Start states can be match states!
    if aut.is_match(sid) {
        mat = Some(get_match(sid, at));
        if matches!(aut.match_kind(), MatchKind::Standard) {
            return Ok(mat);
        }
    }
    while at < haystack.len() {
        sid = aut.next_state(Anchored::No, sid, haystack[at]);
        if aut.is_special(sid) {
            if aut.is_dead(sid) {
                return Ok(mat);
            } else if aut.is_match(sid) {
                mat = Some(get_match(sid, at + 1));
                if matches!(aut.match_kind(), MatchKind::Standard) {
                    return Ok(mat);
                }
            }
        }
        at += 1;
    }
    Ok(mat)
}

fn walk_case_json(pats: &[Vec<u8>], cfg: &Cfg, what: &str) -> J {
    J::obj()
        .with("patterns", pats_json(pats))
        .with("patterns_show", if pats.len() <= 40 { pats_show(pats) } else { J::s("(long list)") })
        .with("cfg", cfg.to_json())
        .with("what", J::s(what))
}

fn low_cfgs_for_walk(rng: &mut Rng, kind: Kind, ci: bool) -> Vec<Cfg> {
    let mut v = vec![];
    let c = |imp| Cfg::new(imp, kind).ci(ci);
    let pre = rng.chance(1, 2);
    for dd in [Some(0usize), None, Some(100)] {
        v.push(c(Imp::LowNnfa).dd(dd).pre(pre));
    }
    for dd in [Some(0usize), Some(2), Some(100)] {
        for bc in [true, false] {
            v.push(c(Imp::LowCnfa).dd(dd).bc(bc).pre(pre));
        }
    }
    for sk in SK::ALL {
        for bc in [true, false] {
            v.push(c(Imp::LowDfa).sk(sk).bc(bc).pre(pre));
        }
    }
    v
}

pub fn c16_check_one(
    rep: &mut Report,
    pats: &[Vec<u8>],
    cfg: &Cfg,
    hays: &[Vec<u8>],
) {
    let s = match guard(|| cfg.build(pats)) {
        Ok(Ok(s)) => s,
        Ok(Err(e)) => {
            rep.violation("build:error", format!("build failed: {}", e), walk_case_json(pats, cfg, "build"));
            return;
        }
        Err(p) => {
            rep.violation("build:panic", format!("build panicked: {}", p), walk_case_json(pats, cfg, "build"));
            return;
        }
    };
    let expect = match cfg.imp {
        Imp::LowDfa => (cfg.sk.covers(false), cfg.sk.covers(true)),
        _ => (true, true),
    };
    // Half of the walks go through the blanket `impl Automaton for &A`.
    let via_ref = pats.len() % 2 == 1;
    let r = guard(|| match (&s, via_ref) {
        (S::N(a), false) => invariant_walk(a, expect),
        (S::C(a), false) => invariant_walk(a, expect),
        (S::D(a), false) => invariant_walk(a, expect),
        (S::N(a), true) => invariant_walk(&a, expect),
        (S::C(a), true) => invariant_walk(&a, expect),
        (S::D(a), true) => invariant_walk(&a, expect),
        (S::Top(_), _) => unreachable!(),
    });
    if via_ref {
        rep.tally("walks_through_reference_impl");
        // metadata accessors through the reference impl must agree
        let same = match &s {
            S::N(a) => { let r = &a; (r.patterns_len(), r.min_pattern_len(), r.max_pattern_len()) == (a.patterns_len(), a.min_pattern_len(), a.max_pattern_len()) && r.memory_usage() == a.memory_usage() }
            S::C(a) => { let r = &a; (r.patterns_len(), r.min_pattern_len(), r.max_pattern_len()) == (a.patterns_len(), a.min_pattern_len(), a.max_pattern_len()) && r.memory_usage() == a.memory_usage() }
            S::D(a) => { let r = &a; (r.patterns_len(), r.min_pattern_len(), r.max_pattern_len()) == (a.patterns_len(), a.min_pattern_len(), a.max_pattern_len()) && r.memory_usage() == a.memory_usage() }
            S::Top(_) => true,
        };
        if !same {
            rep.violation(&format!("walk:{}:reference_impl_metadata", cfg.imp.name()), "metadata through `&A` differs from `A`".into(), walk_case_json(pats, cfg, "walk"));
        }
    }
    rep.eval();
    let mut h = Fnv::new();
    for p in pats {
        h.bytes(p);
    }
    h.str(&cfg.label());
    match r {
        Err(p) => rep.violation(
            &format!("walk:{}:panic", cfg.imp.name()),
            format!("a trait method panicked during the walk: {}", p),
            walk_case_json(pats, cfg, "walk"),
        ),
        Ok(Err((sig, detail))) => rep.violation(
            &format!("walk:{}:{}", cfg.imp.name(), sig),
            detail,
            walk_case_json(pats, cfg, "walk"),
        ),
        Ok(Ok(st)) => {
            rep.tally_n("states_walked", st.states);
            rep.tally_n("transitions_walked", st.transitions);
            rep.tally(&format!("automata_walked_{}", cfg.imp.name()));
            if st.states > 3 {
                rep.nontrivial(h.get());
            }
            if rep.want_sample() && st.states > 6 {
                rep.sample(
                    J::obj()
                        .with("patterns", pats_show(&pats[..pats.len().min(12)]))
                        .with("cfg", J::s(&cfg.label()))
                        .with("states_walked", J::u(st.states))
                        .with("transitions_checked", J::u(st.transitions)),
                );
            }
        }
    }
    // the documented recipe against the built-in search
    if !cfg.supports(false) {
        return;
    }
    for hay in hays {
        let builtin = call(|| s.try_find(Input::new(hay)));
        let recipe = guard(|| match &s {
            S::N(a) => recipe_find(a, hay),
            S::C(a) => recipe_find(a, hay),
            S::D(a) => recipe_find(a, hay),
            S::Top(_) => unreachable!(),
        });
        rep.eval();
        let recipe = match recipe {
            Err(p) => Err(format!("panic: {}", p)),
            Ok(Err(e)) => Err(format!("error: {}", e)),
            Ok(Ok(m)) => Ok(m.map(mm)),
        };
        rep.tally("recipe_searches");
        if recipe != builtin {
            rep.violation(
                &format!("recipe:{}:{}", cfg.imp.name(), cfg.kind.name()),
                format!(
                    "documented search recipe returned {:?}, built-in try_find {:?}",
                    recipe, builtin
                ),
                walk_case_json(pats, cfg, "recipe")
                    .with("haystack", J::Str(hex(hay)))
                    .with("haystack_show", J::Str(show(hay))),
            );
        } else if builtin.as_ref().map_or(false, |m| m.is_some()) {
            rep.nontrivial(h.get() ^ Fnv::new().bytes(hay).get());
        }
    }
}

pub fn run_c16(ctx: &Ctx, rep: &mut Report) {
    let n = ctx.tier.pick(3, 60, 2500);
    let mut root = Rng::new(ctx.seed).fork(0xC16 + ctx.shard as u64);
    for i in 0..n {
        let mut rng = root.fork(i as u64);
        // Every fourth list is aimed at a confirming prefilter (packed /
        // memmem) and closed under "Q = suffix of a proper prefix of P" and
        // "R = Q + one more byte": with such a prefilter the built-in search
        // returns the prefilter's answer while the recipe walks the automaton,
        // so the two only agree if the automaton itself is right.
        let directed = i % 4 == 3;
        let pats = if directed {
            let (mut p, _) = crate::meta::prefilter_patterns(&mut rng);
            p.retain(|q| !q.is_empty() && q.len() <= 40);
            for _ in 0..rng.range(1, 3) {
                if let Some(src) = p.iter().filter(|q| q.len() >= 3).nth(0).cloned() {
                    let a = rng.range(1, src.len() - 2);
                    let b = rng.range(a + 1, src.len() - 1);
                    let q = src[a..b].to_vec(); // suffix of the proper prefix src[..b]
                    let mut r = q.clone();
                    r.push(*rng.pick(b"xyzq"));
                    if rng.chance(1, 2) {
                        p.push(r);
                        p.push(q);
                    } else {
                        p.push(q);
                        p.push(r);
                    }
                }
            }
            if p.is_empty() {
                p.push(b"ab".to_vec());
            }
            p
        } else {
            shaped_patterns(&mut rng, i * ctx.nshards + ctx.shard)
        };
        let alpha: Vec<u8> = {
            let mut a: Vec<u8> = pats.iter().flat_map(|p| p.iter().copied()).take(6).collect();
            a.push(b'a');
            a.extend_from_slice(b"xq");
            a
        };
        let nh = ctx.tier.pick(2, 6, 10);
        let hays: Vec<Vec<u8>> =
            (0..nh).map(|_| gen::haystack(&mut rng, &pats, &alpha, 40)).collect();
        for &kind in &Kind::ALL {
            let ci = !directed && rng.chance(1, 5);
            for cfg in low_cfgs_for_walk(&mut rng, kind, ci) {
                let cfg = if directed { cfg.pre(true) } else { cfg };
                c16_check_one(rep, &pats, &cfg, &hays);
            }
        }
    }
    rep.tally_n("pattern_lists", n as u64);
}

pub fn replay_c16(case: &J, rep: &mut Report) -> Result<(), String> {
    let pats = pats_from_json(case.get("patterns").ok_or("patterns")?)?;
    let cfg = Cfg::from_json(case.get("cfg").ok_or("cfg")?)?;
    let hays = match case.get("haystack").and_then(|v| v.as_str()) {
        Some(h) => vec![unhex(h)?],
        None => vec![],
    };
    c16_check_one(rep, &pats, &cfg, &hays);
    Ok(())
}

// ------------------------------------------------------------ C04 product walk

fn match_list<A: Automaton>(a: &A, s: StateID) -> Vec<(usize, usize)> {
    (0..a.match_len(s))
        .map(|i| {
            let p = a.match_pattern(s, i);
            (p.as_usize(), a.pattern_len(p))
        })
        .collect()
}

pub struct ProductStats {
    pub pairs: u64,
    pub transitions: u64,
    pub capped: bool,
}

/// BFS over reachable pairs; Err((signature, detail, input bytes leading to
/// the differing pair)).
pub fn product_walk<A: Automaton, B: Automaton>(
    r: &A,
    v: &B,
    mode: Anchored,
) -> Result<ProductStats, (String, String, Vec<u8>)> {
    let (rs, vs) = match (r.start_state(mode), v.start_state(mode)) {
        (Ok(a), Ok(b)) => (a, b),
        _ => return Ok(ProductStats { pairs: 0, transitions: 0, capped: false }),
    };
    let mut parent: HashMap<(u32, u32), ((u32, u32), u8)> = HashMap::new();
    let mut seen: HashSet<(u32, u32)> = HashSet::new();
    let mut queue: VecDeque<(StateID, StateID)> = VecDeque::new();
    seen.insert((sid_u(rs), sid_u(vs)));
    queue.push_back((rs, vs));
    let mut st = ProductStats { pairs: 0, transitions: 0, capped: false };
    let path = |parent: &HashMap<(u32, u32), ((u32, u32), u8)>, mut k: (u32, u32)| -> Vec<u8> {
        let mut p = vec![];
        while let Some(&(pk, b)) = parent.get(&k) {
            p.push(b);
            k = pk;
        }
        p.reverse();
        p
    };
    while let Some((a, b)) = queue.pop_front() {
        st.pairs += 1;
        let key = (sid_u(a), sid_u(b));
        let (ma, mb) = (r.is_match(a), v.is_match(b));
        if ma != mb {
            return Err((
                "is_match".into(),
                format!(
                    "after this input the reference is_match={} but the variant is_match={}",
                    ma, mb
                ),
                path(&parent, key),
            ));
        }
        if ma {
            let (la, lb) = (match_list(r, a), match_list(v, b));
            if la != lb {
                return Err((
                    "match_list".into(),
                    format!(
                        "after this input the reference lists matches (pattern,len) {:?}, the variant {:?}",
                        la, lb
                    ),
                    path(&parent, key),
                ));
            }
        }
        // a state the search loop would treat as "start state: may skip
        // ahead with the prefilter" must correspond to a reference start
        if v.is_special(b) && !v.is_dead(b) && !v.is_match(b) && !r.is_start(a) {
            return Err((
                "spurious_start".into(),
                "variant flags a special non-dead non-match (i.e. start) state where the reference is not in a start state".into(),
                path(&parent, key),
            ));
        }
        for byte in 0..=255u8 {
            let na = r.next_state(mode, a, byte);
            let nb = v.next_state(mode, b, byte);
            st.transitions += 1;
            let k = (sid_u(na), sid_u(nb));
            if !seen.contains(&k) {
                if seen.len() >= PAIR_CAP {
                    st.capped = true;
                    continue;
                }
                seen.insert(k);
                parent.insert(k, (key, byte));
                queue.push_back((na, nb));
            }
        }
    }
    Ok(st)
}

fn product_dispatch(
    r: &aho_corasick::nfa::noncontiguous::NFA,
    v: &S,
    mode: Anchored,
) -> Result<ProductStats, (String, String, Vec<u8>)> {
    match v {
        S::N(a) => product_walk(r, a, mode),
        S::C(a) => product_walk(r, a, mode),
        S::D(a) => product_walk(r, a, mode),
        S::Top(_) => unreachable!(),
    }
}

pub fn variant_cfgs(kind: Kind, ci: bool, pre: bool) -> Vec<Cfg> {
    let c = |imp| Cfg::new(imp, kind).ci(ci).pre(pre);
    let mut v = vec![];
    for dd in [Some(1usize), Some(3), Some(100)] {
        v.push(c(Imp::LowNnfa).dd(dd));
    }
    for dd in [Some(0usize), Some(2), Some(100)] {
        for bc in [true, false] {
            v.push(c(Imp::LowCnfa).dd(dd).bc(bc));
        }
    }
    for sk in SK::ALL {
        for bc in [true, false] {
            v.push(c(Imp::LowDfa).sk(sk).bc(bc));
        }
    }
    v
}

pub fn c04_product_one(
    rep: &mut Report,
    pats: &[Vec<u8>],
    kind: Kind,
    ci: bool,
    pre: bool,
    only: Option<&Cfg>,
) {
    let rcfg = Cfg::new(Imp::LowNnfa, kind).ci(ci).pre(pre).dd(Some(0));
    let reference = match guard(|| rcfg.build(pats)) {
        Ok(Ok(S::N(n))) => n,
        Ok(Ok(_)) => unreachable!(),
        Ok(Err(e)) => {
            rep.violation("build:error", format!("reference build failed: {}", e), walk_case_json(pats, &rcfg, "build"));
            return;
        }
        Err(p) => {
            rep.violation("build:panic", format!("reference build panicked: {}", p), walk_case_json(pats, &rcfg, "build"));
            return;
        }
    };
    let variants = match only {
        Some(c) => vec![*c],
        None => variant_cfgs(kind, ci, pre),
    };
    let mut h = Fnv::new();
    for p in pats {
        h.bytes(p);
    }
    for vcfg in variants {
        let v = match guard(|| vcfg.build(pats)) {
            Ok(Ok(s)) => s,
            Ok(Err(e)) => {
                rep.violation("build:error", format!("variant build failed: {}", e), walk_case_json(pats, &vcfg, "build"));
                continue;
            }
            Err(p) => {
                rep.violation("build:panic", format!("variant build panicked: {}", p), walk_case_json(pats, &vcfg, "build"));
                continue;
            }
        };
        for mode in [Anchored::No, Anchored::Yes] {
            let r = guard(|| product_dispatch(&reference, &v, mode));
            rep.eval();
            match r {
                Err(p) => rep.violation(
                    &format!("product:{}:panic", vcfg.imp.name()),
                    format!("a trait method panicked during the product walk: {}", p),
                    walk_case_json(pats, &vcfg, "product"),
                ),
                Ok(Err((sig, detail, input))) => rep.violation(
                    &format!("product:{}:{}", vcfg.imp.name(), sig),
                    format!("{} (anchored={:?}); input = {}", detail, mode, show(&input)),
                    walk_case_json(pats, &vcfg, "product")
                        .with("input", J::Str(hex(&input)))
                        .with("input_show", J::Str(show(&input)))
                        .with("anchored", J::Bool(mode.is_anchored())),
                ),
                Ok(Ok(st)) => {
                    rep.tally_n("product_pairs", st.pairs);
                    rep.tally_n("product_transitions", st.transitions);
                    if st.capped {
                        rep.tally("product_walks_capped");
                    }
                    if st.pairs > 0 {
                        rep.tally(&format!("product_walks_{}", vcfg.imp.name()));
                    }
                    if st.pairs > 3 {
                        rep.nontrivial(
                            h.get() ^ Fnv::new().str(&vcfg.label()).u64(mode.is_anchored() as u64).get(),
                        );
                    }
                    if rep.want_sample() && st.pairs > 8 && !mode.is_anchored() {
                        rep.sample(
                            J::obj()
                                .with("patterns", pats_show(&pats[..pats.len().min(12)]))
                                .with("reference", J::s(&rcfg.label()))
                                .with("variant", J::s(&vcfg.label()))
                                .with("reachable_pairs", J::u(st.pairs))
                                .with("transitions_compared", J::u(st.transitions)),
                        );
                    }
                }
            }
        }
    }
}

// ------------------------------------------------------------ C04 end-to-end

#[derive(Clone, Debug, PartialEq)]
pub struct Answers {
    pub find: Result<Option<M>, String>,
    pub iter: Result<Vec<M>, String>,
    pub earliest: Result<Option<M>, String>,
    pub overlapping: Option<Result<Vec<M>, String>>,
    pub overlapping_steps: Option<Result<Vec<M>, String>>,
    /// AhoCorasick::is_match (top-level searchers only)
    pub is_match: Option<Result<bool, String>>,
}

impl Answers {
    /// Name of the first field that differs.
    pub fn diff(&self, o: &Answers) -> &'static str {
        if self.find != o.find {
            "find"
        } else if self.iter != o.iter {
            "iter"
        } else if self.earliest != o.earliest {
            "earliest"
        } else if self.overlapping != o.overlapping {
            "overlapping_iter"
        } else if self.overlapping_steps != o.overlapping_steps {
            "overlapping_step"
        } else if self.is_match != o.is_match {
            "is_match"
        } else {
            "none"
        }
    }
    /// Which occurrence an earliest-mode search returns is not determined by
    /// the semantics (a prefilter may confirm the full leftmost match where
    /// the automaton alone would stop at the first match state), so
    /// comparisons across different prefilters only keep "found or not".
    pub fn earliest_as_existence(&self) -> Answers {
        let mut a = self.clone();
        a.earliest = a.earliest.map(|o| o.map(|_| (0, 0, 0)));
        a
    }
    /// Shift every offset by `by` (for sub-slice comparisons).
    pub fn shifted(&self, by: usize) -> Answers {
        let sh = |m: &M| (m.0, m.1 + by, m.2 + by);
        let shv = |v: &Vec<M>| v.iter().map(sh).collect::<Vec<M>>();
        Answers {
            find: self.find.clone().map(|o| o.as_ref().map(sh)),
            iter: self.iter.clone().map(|v| shv(&v)),
            earliest: self.earliest.clone().map(|o| o.as_ref().map(sh)),
            overlapping: self.overlapping.clone().map(|r| r.map(|v| shv(&v))),
            overlapping_steps: self.overlapping_steps.clone().map(|r| r.map(|v| shv(&v))),
            is_match: self.is_match.clone(),
        }
    }
    pub fn all_matches(&self) -> Vec<M> {
        let mut v = vec![];
        if let Ok(Some(m)) = &self.find {
            v.push(*m);
        }
        if let Ok(it) = &self.iter {
            v.extend(it.iter().copied());
        }
        if let Ok(Some(m)) = &self.earliest {
            v.push(*m);
        }
        if let Some(Ok(it)) = &self.overlapping {
            v.extend(it.iter().copied());
        }
        if let Some(Ok(it)) = &self.overlapping_steps {
            v.extend(it.iter().copied());
        }
        v
    }
}

pub fn answers(s: &S, kind: Kind, hay: &[u8], span: (usize, usize), anchored: bool) -> Answers {
    let inp = || Input::new(hay).span(span.0..span.1).anchored(anch(anchored));
    let find = call(|| s.try_find(inp()));
    let iter = call(|| s.try_find_iter(inp()));
    let earliest = call(|| s.try_find(inp().earliest(true)));
    let cap = (span.1.saturating_sub(span.0) + 2) * (s.patterns_len() + 1) + 8;
    let (overlapping, overlapping_steps) = if kind == Kind::Standard {
        let it = if anchored {
            None
        } else {
            Some(call(|| s.try_find_overlapping_iter(inp(), cap)))
        };
        let steps = match guard(|| -> Result<Vec<M>, MatchError> {
            let mut st = OverlappingState::start();
            let mut v = vec![];
            for _ in 0..cap {
                s.try_find_overlapping(inp(), &mut st)?;
                match st.get_match() {
                    None => break,
                    Some(m) => v.push(mm(m)),
                }
            }
            Ok(v)
        }) {
            Err(p) => Err(format!("panic: {}", p)),
            Ok(Err(e)) => Err(format!("error: {}", e)),
            Ok(Ok(v)) => Ok(v),
        };
        (it, Some(steps))
    } else {
        (None, None)
    };
    let is_match = match s {
        S::Top(ac) => Some(guard(|| ac.is_match(inp())).map_err(|p| format!("panic: {}", p))),
        _ => None,
    };
    Answers { find, iter, earliest, overlapping, overlapping_steps, is_match }
}

fn e2e_cfgs(rng: &mut Rng, kind: Kind, ci: bool, pre: bool, anchored: bool) -> Vec<Cfg> {
    let sk_for = |rng: &mut Rng| {
        if anchored {
            *rng.pick(&[SK::Anchored, SK::Both])
        } else {
            *rng.pick(&[SK::Unanchored, SK::Both])
        }
    };
    let mut v = vec![];
    for imp in Imp::ALL {
        let dd = *rng.pick(&[None, Some(0usize), Some(1), Some(2), Some(100)]);
        let c = Cfg {
            imp,
            kind,
            sk: sk_for(rng),
            ci,
            pre,
            dense_depth: dd,
            byte_classes: rng.chance(2, 3),
        };
        v.push(c);
    }
    // the automatic choice under both start kinds it treats differently
    v.push(Cfg::new(Imp::TopAuto, kind).ci(ci).pre(pre).sk(if anchored { SK::Both } else { SK::Unanchored }));
    v
}

pub fn c04_e2e_one(
    rep: &mut Report,
    pats: &[Vec<u8>],
    cfgs: &[Cfg],
    hays: &[(Vec<u8>, (usize, usize))],
    anchored: bool,
) {
    let mut built: Vec<(Cfg, S)> = vec![];
    for c in cfgs {
        match guard(|| c.build(pats)) {
            Ok(Ok(s)) => built.push((*c, s)),
            Ok(Err(e)) => rep.violation("build:error", format!("build failed: {}", e), walk_case_json(pats, c, "build")),
            Err(p) => rep.violation("build:panic", format!("build panicked: {}", p), walk_case_json(pats, c, "build")),
        }
    }
    // The two conversion routes: a contiguous NFA and a DFA built FROM a
    // noncontiguous NFA that was built separately. The documentation says that
    // only dense_depth / byte_classes (contiguous) resp. start_kind /
    // byte_classes (DFA) of the converting builder apply, so that builder is
    // deliberately given OTHER values for everything else; the result must
    // search like the NFA it came from.
    if let Some(c0) = cfgs.first() {
        let base = Cfg { imp: Imp::LowNnfa, ..*c0 };
        if let Ok(Ok(nn)) = guard(|| base.nnfa_builder().build(pats)) {
            let other_kind = if base.kind == Kind::Standard { Kind::LeftmostFirst } else { Kind::Standard };
            let odd = Cfg { kind: other_kind, ci: !base.ci, pre: !base.pre, ..base };
            let via_c = guard(|| odd.cnfa_builder().build_from_noncontiguous(&nn));
            let via_d = guard(|| odd.dfa_builder().build_from_noncontiguous(&nn));
            match via_c {
                Ok(Ok(a)) => built.push((Cfg { imp: Imp::LowCnfa, ..base }, S::C(a))),
                other => rep.violation("build:from_noncontiguous", format!("contiguous::Builder::build_from_noncontiguous failed: {:?}", other.map(|r| r.map(|_| ()).map_err(|e| e.to_string()))), walk_case_json(pats, &base, "build")),
            }
            match via_d {
                Ok(Ok(a)) => built.push((Cfg { imp: Imp::LowDfa, ..base }, S::D(a))),
                other => rep.violation("build:from_noncontiguous", format!("dfa::Builder::build_from_noncontiguous failed: {:?}", other.map(|r| r.map(|_| ()).map_err(|e| e.to_string()))), walk_case_json(pats, &base, "build")),
            }
            rep.tally("conversion_routes_built");
        }
    }
    if built.len() < 2 {
        return;
    }
    let kind = built[0].0.kind;
    let mut ph = Fnv::new();
    for p in pats {
        ph.bytes(p);
    }
    for (hay, span) in hays {
        let base = answers(&built[0].1, kind, hay, *span, anchored);
        let nontrivial = base.find.as_ref().map_or(false, |m| m.is_some());
        for (c, s) in &built[1..] {
            let mut a = answers(s, kind, hay, *span, anchored);
            // is_match exists on top-level searchers only; for low-level
            // types compare it with find().is_some() of the same searcher
            if a.is_match.is_none() {
                a.is_match = base.is_match.clone().map(|_| a.find.clone().map(|o| o.is_some()));
            }
            rep.eval();
            rep.tally(&format!("e2e_compared_{}", c.imp.name()));
            if nontrivial {
                rep.nontrivial(
                    ph.get()
                        ^ Fnv::new().str(&c.label()).bytes(hay).u64(span.0 as u64).u64(span.1 as u64).get(),
                );
            }
            if a != base {
                let field = if a.find != base.find {
                    "find"
                } else if a.iter != base.iter {
                    "iter"
                } else if a.earliest != base.earliest {
                    "earliest"
                } else if a.overlapping != base.overlapping {
                    "overlapping_iter"
                } else {
                    "overlapping_step"
                };
                rep.violation(
                    &format!("e2e:{}:{}:{}", c.imp.name(), c.kind.name(), field),
                    format!(
                        "{} differs between {} and {}: {:?} vs {:?}",
                        field,
                        built[0].0.label(),
                        c.label(),
                        base,
                        a
                    ),
                    walk_case_json(pats, c, "e2e")
                        .with("base_cfg", built[0].0.to_json())
                        .with("haystack", J::Str(hex(hay)))
                        .with("haystack_show", J::Str(show(hay)))
                        .with("span", J::Arr(vec![J::i(span.0), J::i(span.1)]))
                        .with("anchored", J::Bool(anchored)),
                );
            }
        }
    }
}

pub fn run_c04(ctx: &Ctx, rep: &mut Report) {
    let n = ctx.tier.pick(2, 40, 1500);
    let mut root = Rng::new(ctx.seed).fork(0xC04 + ctx.shard as u64);
    for i in 0..n {
        let mut rng = root.fork(i as u64);
        let pats = shaped_patterns(&mut rng, i * ctx.nshards + ctx.shard);
        let kind = Kind::ALL[i % 3];
        let ci = rng.chance(1, 4);
        let pre = rng.chance(1, 2);
        // (a) product walk
        c04_product_one(rep, &pats, kind, ci, pre, None);
        // (b) end-to-end differential
        let alpha: Vec<u8> = {
            let mut a: Vec<u8> = pats.iter().flat_map(|p| p.iter().copied()).take(6).collect();
            a.push(b'a');
            a
        };
        for anchored in [false, true] {
            let cfgs = e2e_cfgs(&mut rng, kind, ci, pre, anchored);
            let nh = ctx.tier.pick(2, 8, 12);
            let hays: Vec<(Vec<u8>, (usize, usize))> = (0..nh)
                .map(|k| {
                    let h = gen::haystack(&mut rng, &pats, &alpha, 48);
                    let sp = if k % 2 == 0 { (0, h.len()) } else { gen::span(&mut rng, h.len()) };
                    (h, sp)
                })
                .collect();
            c04_e2e_one(rep, &pats, &cfgs, &hays, anchored);
        }
    }
    rep.tally_n("pattern_lists", n as u64);
    // (c) automata with more than 2^16 states (state identifiers no longer
    // fit 16 bits, tables are megabytes): end-to-end differential plus the
    // reference model on one of the searchers. No product walk (it would be
    // tens of millions of transitions per list).
    let huge = ctx.tier.pick(0, 1, 6);
    for i in 0..huge {
        let mut rng = root.fork(0xB16 + i as u64);
        let np = rng.range(2500, 3200);
        let alpha = b"abcd".to_vec();
        let pats: Vec<Vec<u8>> = (0..np)
            .map(|_| {
                let l = rng.range(24, 40);
                gen::rand_string(&mut rng, &alpha, l)
            })
            .collect();
        let kind = Kind::ALL[(ctx.shard + i) % 3];
        let anchored = (ctx.shard / 3 + i) % 4 == 3;
        let pre = rng.chance(1, 2);
        let cfgs = e2e_cfgs(&mut rng, kind, false, pre, anchored);
        let mut hays: Vec<(Vec<u8>, (usize, usize))> = vec![];
        for k in 0..6 {
            let mut h = vec![];
            while h.len() < 200 + 300 * k {
                match rng.below(3) {
                    0 => {
                        let p: &Vec<u8> = rng.pick(&pats);
                        h.extend_from_slice(p);
                    }
                    1 => {
                        let p = rng.pick(&pats);
                        h.extend_from_slice(&p[..p.len() - 1]);
                    }
                    _ => h.push(*rng.pick(&alpha)),
                }
            }
            let sp = if anchored {
                // an anchored search needs an occurrence at its start to say anything
                let p = rng.pick(&pats).clone();
                let at = rng.below(h.len());
                let at = at.min(h.len().saturating_sub(p.len()));
                h[at..at + p.len()].copy_from_slice(&p);
                (at, h.len())
            } else if k % 2 == 0 {
                (0, h.len())
            } else {
                gen::span(&mut rng, h.len())
            };
            hays.push((h, sp));
        }
        if let Ok(Ok(s)) = guard(|| cfgs[i % cfgs.len()].build(&pats)) {
            let b = crate::sem::Built { cfg: cfgs[i % cfgs.len()], s };
            for (h, sp) in &hays {
                crate::sem::check_find_and_iter(rep, &pats, &b, h, *sp, anchored);
            }
        }
        c04_e2e_one(rep, &pats, &cfgs, &hays, anchored);
        rep.tally("huge_automata_lists");
    }
    let _ = Tier::Quick;
}

pub fn replay_c04(case: &J, rep: &mut Report) -> Result<(), String> {
    let pats = pats_from_json(case.get("patterns").ok_or("patterns")?)?;
    let cfg = Cfg::from_json(case.get("cfg").ok_or("cfg")?)?;
    let what = case.get("what").and_then(|v| v.as_str()).unwrap_or("");
    match what {
        "product" => {
            c04_product_one(rep, &pats, cfg.kind, cfg.ci, cfg.pre, Some(&cfg));
            Ok(())
        }
        "e2e" => {
            let base = Cfg::from_json(case.get("base_cfg").ok_or("base_cfg")?)?;
            let hay = unhex(case.get("haystack").and_then(|v| v.as_str()).ok_or("haystack")?)?;
            let sp = case.get("span").and_then(|v| v.as_arr()).ok_or("span")?;
            let span = (sp[0].as_usize().ok_or("s")?, sp[1].as_usize().ok_or("e")?);
            let anchored = case.get("anchored").and_then(|v| v.as_bool()).unwrap_or(false);
            c04_e2e_one(rep, &pats, &[base, cfg], &[(hay, span)], anchored);
            Ok(())
        }
        "build" => {
            let _ = cfg.build(&pats)?;
            Ok(())
        }
        _ => Err(format!("unknown C04 case kind {:?}", what)),
    }
}
