//! C06: every packed searcher variant (Rabin-Karp, slim Teddy 128/256, fat
//! Teddy, 1-4 byte fingerprints) against the leftmost definition, on
//! vector-shaped haystacks and spans. The same case generator feeds the
//! memory-safety stages of C15 (Miri / ASan / guard pages).

use aho_corasick::packed::{Config, MatchKind as PK, Searcher};
use aho_corasick::Span;

use crate::gen;
use crate::oracle::{Kind, Oracle, M};
use crate::report::{ms_json, om_json, pats_from_json, pats_json, pats_show, Ctx, Report, Tier};
use crate::sem::guard;
use crate::util::{hex, show, unhex, Fnv, Rng, J};

#[derive(Clone, Copy, Debug, PartialEq, Eq, Hash)]
pub enum Variant {
    RabinKarp,
    Slim128,
    Slim256,
    Fat256,
    Default,
}

impl Variant {
    pub const ALL: [Variant; 5] = [
        Variant::RabinKarp,
        Variant::Slim128,
        Variant::Slim256,
        Variant::Fat256,
        Variant::Default,
    ];
    pub fn name(self) -> &'static str {
        match self {
            Variant::RabinKarp => "rabinkarp",
            Variant::Slim128 => "slim128",
            Variant::Slim256 => "slim256",
            Variant::Fat256 => "fat256",
            Variant::Default => "default",
        }
    }
    pub fn from_name(s: &str) -> Option<Variant> {
        Variant::ALL.iter().copied().find(|v| v.name() == s)
    }
}

pub fn build(pats: &[Vec<u8>], kind: Kind, v: Variant) -> Option<Searcher> {
    let mut c = Config::new();
    c.match_kind(match kind {
        Kind::LeftmostLongest => PK::LeftmostLongest,
        _ => PK::LeftmostFirst,
    });
    match v {
        Variant::RabinKarp => {
            c.only_rabin_karp(true);
        }
        Variant::Slim128 => {
            c.only_teddy(true).only_teddy_256bit(Some(false)).only_teddy_fat(Some(false));
            c.heuristic_pattern_limits(false);
        }
        Variant::Slim256 => {
            c.only_teddy(true).only_teddy_256bit(Some(true)).only_teddy_fat(Some(false));
            c.heuristic_pattern_limits(false);
        }
        Variant::Fat256 => {
            c.only_teddy(true).only_teddy_256bit(Some(true)).only_teddy_fat(Some(true));
            c.heuristic_pattern_limits(false);
        }
        Variant::Default => {}
    }
    // The collection reaches the builder in one of three equivalent ways
    // (chosen by its shape): all at once; one by one; the first pattern added
    // and the rest in two batches.
    let mut b = c.builder();
    match (pats.len() + pats.first().map_or(0, |p| p.len())) % 3 {
        0 => {
            b.extend(pats.iter());
        }
        1 => {
            for p in pats {
                b.add(p);
            }
        }
        _ => {
            if let Some((first, rest)) = pats.split_first() {
                b.add(first);
                let (r1, r2) = rest.split_at(rest.len() / 2);
                b.extend(r1.iter());
                b.extend(r2.iter());
            }
        }
    }
    b.build()
}

/// The algorithm a packed searcher runs. Read from its Debug output where that
/// names it; otherwise (type names are an implementation detail) taken from
/// the variant that was forced through `packed::Config`.
pub fn implementation(s: &Searcher, v: Variant) -> String {
    let d = format!("{:?}", s);
    if d.contains("search_kind: RabinKarp") {
        return "RabinKarp".to_string();
    }
    if let Some(i) = d.find("search_kind: Teddy(Searcher { imp: ") {
        let rest = &d[i + "search_kind: Teddy(Searcher { imp: ".len()..];
        let name = rest.split(|c: char| !c.is_alphanumeric()).next().unwrap_or("");
        if ["SlimSSSE3", "SlimAVX2", "FatAVX2"].contains(&name) {
            return name.to_string();
        }
    }
    match v {
        Variant::RabinKarp => "RabinKarp",
        Variant::Slim128 => "SlimSSSE3",
        Variant::Slim256 => "SlimAVX2",
        Variant::Fat256 => "FatAVX2",
        Variant::Default => "Default",
    }
    .to_string()
}

fn case_json(
    pats: &[Vec<u8>],
    kind: Kind,
    v: Variant,
    hay: &[u8],
    span: (usize, usize),
    api: &str,
) -> J {
    J::obj()
        .with("patterns", pats_json(pats))
        .with("patterns_show", if pats.len() <= 24 { pats_show(pats) } else { J::s("(long list)") })
        .with("kind", J::s(kind.name()))
        .with("variant", J::s(v.name()))
        .with("haystack", J::Str(hex(hay)))
        .with("haystack_show", J::Str(if hay.len() <= 160 { show(hay) } else { format!("({} bytes)", hay.len()) }))
        .with("span", J::Arr(vec![J::i(span.0), J::i(span.1)]))
        .with("api", J::s(api))
}

fn pm(m: aho_corasick::Match) -> M {
    crate::cfg::mm(m)
}

pub fn check_one(
    rep: &mut Report,
    pats: &[Vec<u8>],
    kind: Kind,
    v: Variant,
    s: &Searcher,
    imp: &str,
    mask_len: usize,
    hay: &[u8],
    span: (usize, usize),
) {
    let o = Oracle::new(pats, false, kind);
    let exp = o.find(hay, span.0, span.1, false);
    let got = guard(|| s.find_in(hay, Span { start: span.0, end: span.1 }).map(pm));
    rep.eval();
    let teddy_ran = imp != "RabinKarp" && span.1 - span.0 >= s.minimum_len();
    let key = format!("{}_m{}_{}", imp, mask_len, if teddy_ran { "vector" } else { "fallback" });
    rep.tally(&key);
    let mut h = Fnv::new();
    for p in pats {
        h.bytes(p);
    }
    h.str(kind.name()).str(v.name()).bytes(hay).u64(span.0 as u64).u64(span.1 as u64);
    if exp.is_some() {
        rep.nontrivial(h.get());
        if teddy_ran {
            rep.tally("vector_path_with_match");
            let m = exp.unwrap();
            if m.2 + 16 > span.1 {
                rep.tally("match_in_final_16_bytes");
            }
            if (m.1 / 16) != ((m.2.max(1) - 1) / 16) {
                rep.tally("match_straddles_16_byte_boundary");
            }
        }
    }
    let sig = |f: &str| format!("find_in:{}:{}:{}", imp, kind.name(), f);
    match got {
        Err(p) => rep.violation(&sig("panic"), format!("find_in panicked: {}", p), case_json(pats, kind, v, hay, span, "find_in")),
        Ok(g) if g == exp => {}
        Ok(g) => {
            let f = match (exp, g) {
                (None, Some(_)) => "spurious",
                (Some(_), None) => "missing",
                (Some(e), Some(g)) if e.1 != g.1 => "start",
                (Some(e), Some(g)) if e.2 != g.2 => "end",
                _ => "pattern",
            };
            rep.violation(
                &sig(f),
                format!("find_in returned {:?}, leftmost definition gives {:?} ({} mask {} {})", g, exp, imp, mask_len, if teddy_ran { "vector path" } else { "fallback" }),
                case_json(pats, kind, v, hay, span, "find_in").with("observed", om_json(g)).with("expected", om_json(exp)),
            );
        }
    }
    // The same bytes at another base address (the allocator hands out
    // 16-byte-aligned haystacks; vector code must not care): the haystack is
    // copied to an offset 1..63 of a scratch buffer and searched there. For
    // full spans through `find`, the twin of `find_in`.
    {
        let k = 1 + (hay.len() * 7 + span.0 * 3 + span.1) % 63;
        let mut scratch = vec![0xA5u8; hay.len() + 64];
        scratch[k..k + hay.len()].copy_from_slice(hay);
        let moved = &scratch[k..k + hay.len()];
        let full = span == (0, hay.len());
        let got2 = guard(|| {
            if full {
                s.find(moved).map(pm)
            } else {
                s.find_in(moved, Span { start: span.0, end: span.1 }).map(pm)
            }
        });
        rep.eval();
        rep.tally("searches_at_shifted_base_address");
        match got2 {
            Err(p) => rep.violation(&sig("panic_at_shifted_base"), format!("search panicked with the haystack at base offset {}: {}", k, p), case_json(pats, kind, v, hay, span, "find_in")),
            Ok(g) if g == exp => {}
            Ok(g) => rep.violation(
                &sig("differs_at_shifted_base"),
                format!("{} returned {:?} with the haystack placed {} bytes into a buffer, leftmost definition gives {:?} ({} mask {})", if full { "find" } else { "find_in" }, g, k, exp, imp, mask_len),
                case_json(pats, kind, v, hay, span, "find_in").with("observed", om_json(g)).with("expected", om_json(exp)).with("base_offset", J::i(k)),
            ),
        }
    }
    // the iterator (whole haystack) once per haystack: when the span is full
    if span == (0, hay.len()) {
        let exp_it = o.iter(hay, 0, hay.len(), false);
        let got_it = guard(|| s.find_iter(hay).take(hay.len() + 2).map(pm).collect::<Vec<M>>());
        rep.eval();
        match got_it {
            Err(p) => rep.violation(&format!("find_iter:{}:{}:panic", imp, kind.name()), format!("find_iter panicked: {}", p), case_json(pats, kind, v, hay, span, "find_iter")),
            Ok(g) if g == exp_it => {
                if g.len() >= 2 {
                    rep.tally("iter_with_2plus_matches");
                }
                // the consuming Iterator methods of the packed iterator itself
                if hay.len() % 4 == 1 {
                    let c = guard(|| {
                        let mut fe: Vec<M> = vec![];
                        s.find_iter(hay).for_each(|m| {
                            if fe.len() <= hay.len() + 2 {
                                fe.push(pm(m))
                            }
                        });
                        let fo = s.find_iter(hay).fold(vec![], |mut v: Vec<M>, m| {
                            if v.len() <= hay.len() + 2 {
                                v.push(pm(m));
                            }
                            v
                        });
                        (s.find_iter(hay).count(), s.find_iter(hay).last().map(pm), fe, fo)
                    });
                    rep.eval();
                    rep.tally("iterator_method_cases");
                    if c != Ok((exp_it.len(), exp_it.last().copied(), exp_it.clone(), exp_it.clone())) {
                        rep.violation(
                            &format!("find_iter:{}:{}:iterator_methods", imp, kind.name()),
                            format!("count / last / for_each / fold of the packed iterator = {:?}, the sequence yielded by next() has {} items ending with {:?}", c.map(|t| (t.0, t.1, t.2.len(), t.3.len())), exp_it.len(), exp_it.last()),
                            case_json(pats, kind, v, hay, span, "find_iter"),
                        );
                    }
                }
                if rep.want_sample() && g.len() >= 2 && teddy_ran && hay.len() < 80 {
                    rep.sample(
                        J::obj()
                            .with("patterns", pats_show(&pats[..pats.len().min(10)]))
                            .with("match_kind", J::s(kind.name()))
                            .with("implementation", J::s(&format!("{} (mask length {})", imp, mask_len)))
                            .with("haystack", J::Str(show(hay)))
                            .with("find_iter_observed", ms_json(&g)),
                    );
                }
            }
            Ok(g) => rep.violation(
                &format!("find_iter:{}:{}:sequence", imp, kind.name()),
                format!("find_iter yielded {:?}, definition gives {:?}", g, exp_it),
                case_json(pats, kind, v, hay, span, "find_iter").with("observed", ms_json(&g)).with("expected", ms_json(&exp_it)),
            ),
        }
    }
}

/// Calls `f(pats, kind, variant, searcher, imp, mask_len, hay, span)` for the
/// seeded packed workload of this shard. Shared with C15.
pub fn for_each_case(
    ctx: &Ctx,
    rep: &mut Report,
    nlists: usize,
    f: &mut dyn FnMut(&mut Report, &[Vec<u8>], Kind, Variant, &Searcher, &str, usize, &[u8], (usize, usize)),
) {
    let lens = gen::vec_lengths(ctx.tier == Tier::Thorough);
    let mut root = Rng::new(ctx.seed).fork(0xC06 + ctx.shard as u64);
    for li in 0..nlists {
        let mut rng = root.fork(li as u64);
        let pats = gen::packed_patterns(&mut rng);
        let minlen = pats.iter().map(|p| p.len()).min().unwrap_or(0);
        let mask_len = minlen.min(4);
        // a few haystacks per list, shared by all variants
        let nh = ctx.tier.pick(3, 8, 14);
        let mut hays: Vec<Vec<u8>> = vec![];
        for _ in 0..nh {
            let len = *rng.pick(&lens);
            hays.push(gen::vec_haystack(&mut rng, &pats, len));
        }
        for &kind in &[Kind::LeftmostFirst, Kind::LeftmostLongest] {
            for &v in &Variant::ALL {
                let s = match guard(|| build(&pats, kind, v)) {
                    Ok(Some(s)) => s,
                    Ok(None) => {
                        rep.tally(&format!("not_built_{}", v.name()));
                        continue;
                    }
                    Err(p) => {
                        rep.violation(
                            &format!("build:{}:panic", v.name()),
                            format!("packed build panicked: {}", p),
                            case_json(&pats, kind, v, b"", (0, 0), "build"),
                        );
                        continue;
                    }
                };
                let imp = implementation(&s, v);
                for hay in &hays {
                    for sp in gen::vec_spans(&mut rng, hay.len()) {
                        f(rep, &pats, kind, v, &s, &imp, mask_len, hay, sp);
                    }
                }
            }
        }
    }
    rep.tally_n("pattern_lists", nlists as u64);
}

/// Near-miss sweep: for patterns of every length class, a copy with exactly
/// one byte altered (first bytes, middle, each of the last 9 bytes) is the only
/// candidate in the haystack; nothing may be reported. This walks the verification
/// routines (which compare in 2/4/8-byte chunks) position by position.
fn near_miss_sweep(ctx: &Ctx, rep: &mut Report) {
    let lens: Vec<usize> = (1..=40).chain([47, 48, 49, 63, 64, 65, 66, 67, 68, 69, 70, 71, 72, 127, 128, 129, 133, 134, 135]).collect();
    let mut root = Rng::new(ctx.seed).fork(0xA155 + ctx.shard as u64);
    for (k, &len) in lens.iter().enumerate() {
        if !ctx.mine(k) {
            continue;
        }
        let mut rng = root.fork(len as u64);
        let reps = ctx.tier.pick(1, 2, 12);
        for _ in 0..reps {
            let alpha = b"abcdefgh";
            let p = gen::rand_string(&mut rng, alpha, len);
            // a second, shorter pattern keeps Rabin-Karp's hash window short
            let q = gen::rand_string(&mut rng, b"XYZ", len.min(3).max(1));
            let pats = vec![p.clone(), q];
            let mut positions: Vec<usize> = (0..len.min(4)).collect();
            positions.push(len / 2);
            positions.extend(len.saturating_sub(9)..len);
            positions.sort();
            positions.dedup();
            for &kind in &[Kind::LeftmostFirst, Kind::LeftmostLongest] {
                for &v in &Variant::ALL {
                    let s = match guard(|| build(&pats, kind, v)) {
                        Ok(Some(s)) => s,
                        _ => continue,
                    };
                    let imp = implementation(&s, v);
                    let ml = pats.iter().map(|x| x.len()).min().unwrap_or(0).min(4);
                    for &i in &positions {
                        let mut near = p.clone();
                        near[i] = if near[i] == b'z' { b'y' } else { b'z' };
                        for pad in [0usize, 1, 17, 40] {
                            let mut hay = vec![b'-'; pad];
                            hay.extend_from_slice(&near);
                            hay.extend(std::iter::repeat(b'-').take(40));
                            let l = hay.len();
                            check_one(rep, &pats, kind, v, &s, &imp, ml, &hay, (0, l));
                            rep.tally("near_miss_haystacks");
                        }
                    }
                }
            }
        }
    }
}

/// Patterns around 2^16 bytes (lengths are `usize` everywhere; a 16-bit
/// shortcut anywhere in ordering, hashing or verification shows here): a short
/// pattern, a giant one that starts with it, and a second giant one whose
/// length modulo 2^16 is small.
fn giant_patterns(ctx: &Ctx, rep: &mut Report) {
    let lens = [65_535usize, 65_536, 65_537, 65_536 + 37, 131_072 + 5];
    let mut root = Rng::new(ctx.seed).fork(0x61A7 + ctx.shard as u64);
    for (k, &glen) in lens.iter().enumerate() {
        if !ctx.mine(k) && ctx.tier != Tier::Thorough {
            continue;
        }
        let mut rng = root.fork(glen as u64);
        let short: Vec<u8> = b"abc".iter().copied().chain((0..rng.range(0, 30)).map(|_| b'd')).collect();
        let mut giant = short.clone();
        while giant.len() < glen {
            giant.push(b'x');
        }
        let mut other = b"qr".to_vec();
        while other.len() < 65_536 + 2 {
            other.push(b'y');
        }
        // supplied in both orders (leftmost-first cares), plus a few fillers
        let mut pats = if rng.chance(1, 2) { vec![short.clone(), giant.clone()] } else { vec![giant.clone(), short.clone()] };
        pats.push(other.clone());
        pats.push(b"zq".to_vec());
        let mut hay = vec![b'z'; 40 + rng.below(20)];
        hay.extend_from_slice(&giant);
        hay.extend_from_slice(b"zz");
        hay.extend_from_slice(&short);
        hay.extend_from_slice(b"zzzz");
        hay.extend_from_slice(&other);
        hay.extend_from_slice(&giant[..giant.len() - 1]);
        hay.extend_from_slice(b"zzzzzzzzzzzzzzzzzzzzzzzzzzzzzzzzzzzz");
        for &kind in &[Kind::LeftmostFirst, Kind::LeftmostLongest] {
            for &v in &Variant::ALL {
                let s = match guard(|| build(&pats, kind, v)) {
                    Ok(Some(s)) => s,
                    Ok(None) => continue,
                    Err(p) => {
                        rep.violation(&format!("build:{}:panic", v.name()), format!("packed build panicked: {}", p), case_json(&pats, kind, v, b"", (0, 0), "build"));
                        continue;
                    }
                };
                let imp = implementation(&s, v);
                let l = hay.len();
                check_one(rep, &pats, kind, v, &s, &imp, 2, &hay, (0, l));
                check_one(rep, &pats, kind, v, &s, &imp, 2, &hay, (7, l - 3));
                rep.tally("giant_pattern_cases");
            }
        }
    }
}

/// Anti-hash inputs for the Rabin-Karp path: a window whose bytes all differ
/// from the pattern but whose hash is equal. Thue-Morse words of length 2^k
/// and their complements collide under every polynomial hash modulo 2^64 with
/// an odd multiplier (k >= 10); for a shift-and-add hash any two windows that
/// agree on their last 64 bytes collide. A searcher that trusts its hash
/// reports the look-alike.
fn hash_collisions(ctx: &Ctx, rep: &mut Report) {
    let mut cases: Vec<(Vec<Vec<u8>>, Vec<u8>)> = vec![];
    for k in [10usize, 11] {
        let n = 1usize << k;
        let tm: Vec<u8> = (0..n).map(|i: usize| if i.count_ones() % 2 == 0 { b'a' } else { b'b' }).collect();
        let co: Vec<u8> = tm.iter().map(|&b| if b == b'a' { b'b' } else { b'a' }).collect();
        let mut hay = b"zz".to_vec();
        hay.extend_from_slice(&co);
        hay.extend_from_slice(b"zz");
        hay.extend_from_slice(&tm);
        hay.extend_from_slice(b"zz");
        cases.push((vec![tm.clone()], hay.clone()));
        cases.push((vec![tm.clone(), b"qq".to_vec(), co[..n / 2].to_vec()], hay));
    }
    // same last 64 bytes, different head
    let tail: Vec<u8> = (0..64).map(|i| b'c' + (i % 5) as u8).collect();
    let mut p1 = b"HEAD-one-".to_vec();
    p1.extend_from_slice(&tail);
    let mut look = b"head+TWO+".to_vec();
    look.extend_from_slice(&tail);
    let mut hay = b"..".to_vec();
    hay.extend_from_slice(&look);
    hay.extend_from_slice(b"....");
    hay.extend_from_slice(&p1);
    cases.push((vec![p1.clone()], hay.clone()));
    cases.push((vec![p1, b"zzzzzzzzzzzzzzzzzzzzzzzzzzzzzzzzzzzzzzzzzzzzzzzzzzzzzzzzzzzzzzzzzzzzzzzzz".to_vec()], hay));
    for (k, (pats, hay)) in cases.iter().enumerate() {
        if !ctx.mine(k) {
            continue;
        }
        for &kind in &[Kind::LeftmostFirst, Kind::LeftmostLongest] {
            for &v in &Variant::ALL {
                let s = match guard(|| build(pats, kind, v)) {
                    Ok(Some(s)) => s,
                    _ => continue,
                };
                let imp = implementation(&s, v);
                let l = hay.len();
                let ml = pats.iter().map(|p| p.len()).min().unwrap_or(0).min(4);
                check_one(rep, pats, kind, v, &s, &imp, ml, hay, (0, l));
                check_one(rep, pats, kind, v, &s, &imp, ml, hay, (1, l - 1));
                rep.tally("hash_collision_cases");
            }
        }
    }
}

pub fn run(ctx: &Ctx, rep: &mut Report) {
    near_miss_sweep(ctx, rep);
    giant_patterns(ctx, rep);
    hash_collisions(ctx, rep);
    let n = ctx.tier.pick(4, 700, 100_000);
    for_each_case(ctx, rep, n, &mut |rep, pats, kind, v, s, imp, ml, hay, sp| {
        check_one(rep, pats, kind, v, s, imp, ml, hay, sp)
    });
}

pub struct PackedCase {
    pub pats: Vec<Vec<u8>>,
    pub kind: Kind,
    pub variant: Variant,
    pub hay: Vec<u8>,
    pub span: (usize, usize),
}

pub fn parse_case(case: &J) -> Result<PackedCase, String> {
    let pats = pats_from_json(case.get("patterns").ok_or("patterns")?)?;
    let kind = Kind::from_name(case.get("kind").and_then(|v| v.as_str()).ok_or("kind")?).ok_or("kind")?;
    let variant = Variant::from_name(case.get("variant").and_then(|v| v.as_str()).ok_or("variant")?).ok_or("variant")?;
    let hay = unhex(case.get("haystack").and_then(|v| v.as_str()).ok_or("haystack")?)?;
    let sp = case.get("span").and_then(|v| v.as_arr()).ok_or("span")?;
    let span = (sp[0].as_usize().ok_or("s")?, sp[1].as_usize().ok_or("e")?);
    Ok(PackedCase { pats, kind, variant, hay, span })
}

pub fn replay(case: &J, rep: &mut Report) -> Result<(), String> {
    let c = parse_case(case)?;
    let s = build(&c.pats, c.kind, c.variant).ok_or("searcher could not be built")?;
    let imp = implementation(&s, c.variant);
    let ml = c.pats.iter().map(|p| p.len()).min().unwrap_or(0).min(4);
    check_one(rep, &c.pats, c.kind, c.variant, &s, &imp, ml, &c.hay, c.span);
    Ok(())
}
