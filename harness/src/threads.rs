//! C17: searches are pure and safe to share across threads.
//!
//! A "world" of built searchers (top-level, low-level automata, packed) and a
//! pool of inputs is exercised by several threads that share `&searcher` (odd
//! threads use clones made beforehand). Every operation is recorded at the
//! client boundary as {thread, searcher, op, input, call ticket, return
//! ticket, result hash} with tickets drawn from one global atomic counter.
//! Offline checks: every concurrent result equals the result computed
//! sequentially before the threads started *and* the one computed again after
//! they finished; the Debug rendering of every searcher is unchanged; the
//! number of temporally overlapping operation pairs actually observed is
//! reported (and must be > 0).
//!
//! The same world/workload is run (a) natively, (b) under TSan, (c) under Miri
//! with different scheduler seeds, (d) by the `purity` binary with the heap
//! holding the searchers write-protected.

use std::sync::atomic::{AtomicU64, Ordering};
use std::sync::{Arc, Barrier};

use aho_corasick::{
    automaton::{Automaton, OverlappingState},
    Input, Span,
};

use crate::cfg::{mm, Cfg, Imp, S, SK};
use crate::gen::{self, Profile};
use crate::meta::{decoy_haystack, prefilter_patterns};
use crate::oracle::Kind;
use crate::packed::{self, Variant};
use crate::report::{pats_json, pats_show, Ctx, Report, Tier};
use crate::sem::guard;
use crate::util::{hex, Fnv, Rng, J};

pub static TICKET: AtomicU64 = AtomicU64::new(0);

#[derive(Clone, Copy, Debug, PartialEq, Eq, Hash, PartialOrd, Ord)]
pub enum Op {
    Find,
    Earliest,
    Iter,
    IsMatch,
    OverIter,
    OverStep,
    AnchoredFind,
    ReplaceBytes,
    StreamFind,
    StreamReplace,
    SpanFind,
}

impl Op {
    pub const ALL: [Op; 11] = [
        Op::Find,
        Op::Earliest,
        Op::Iter,
        Op::IsMatch,
        Op::OverIter,
        Op::OverStep,
        Op::AnchoredFind,
        Op::ReplaceBytes,
        Op::StreamFind,
        Op::StreamReplace,
        Op::SpanFind,
    ];
    pub fn name(self) -> &'static str {
        match self {
            Op::Find => "find",
            Op::Earliest => "earliest",
            Op::Iter => "find_iter",
            Op::IsMatch => "is_match",
            Op::OverIter => "overlapping_iter",
            Op::OverStep => "overlapping_step",
            Op::AnchoredFind => "anchored_find",
            Op::ReplaceBytes => "replace_all_bytes",
            Op::StreamFind => "stream_find_iter",
            Op::StreamReplace => "stream_replace_all",
            Op::SpanFind => "span_find",
        }
    }
}

pub enum Searcher {
    Ac { cfg: Cfg, pats: Vec<Vec<u8>>, s: S },
    Packed { kind: Kind, variant: Variant, pats: Vec<Vec<u8>>, s: aho_corasick::packed::Searcher },
}

impl Searcher {
    pub fn label(&self) -> String {
        match self {
            Searcher::Ac { cfg, .. } => cfg.label(),
            Searcher::Packed { kind, variant, .. } => format!("packed/{}/{}", variant.name(), kind.name()),
        }
    }
    pub fn pats(&self) -> &[Vec<u8>] {
        match self {
            Searcher::Ac { pats, .. } => pats,
            Searcher::Packed { pats, .. } => pats,
        }
    }
    /// A clone sharing nothing but what the crate itself shares (Arc).
    pub fn duplicate(&self) -> Searcher {
        match self {
            Searcher::Ac { cfg, pats, s } => Searcher::Ac {
                cfg: *cfg,
                pats: pats.clone(),
                s: match s {
                    S::Top(a) => S::Top(a.clone()),
                    S::N(a) => S::N(a.clone()),
                    S::C(a) => S::C(a.clone()),
                    S::D(a) => S::D(a.clone()),
                },
            },
            Searcher::Packed { kind, variant, pats, s } => {
                Searcher::Packed { kind: *kind, variant: *variant, pats: pats.clone(), s: s.clone() }
            }
        }
    }
    pub fn debug_hash(&self) -> u64 {
        let d = match self {
            Searcher::Ac { s, .. } => s.debug_string(),
            Searcher::Packed { s, .. } => format!("{:?}", s),
        };
        Fnv::new().str(&d).get()
    }
}

pub struct World {
    pub searchers: Vec<Searcher>,
    pub inputs: Vec<Vec<u8>>,
    pub seed: u64,
    pub tier: Tier,
}

fn hash_ms(h: &mut Fnv, ms: impl Iterator<Item = (usize, usize, usize)>) {
    for m in ms {
        h.u64(m.0 as u64).u64(m.1 as u64).u64(m.2 as u64);
    }
    h.u64(0xE0F);
}

thread_local! {
    /// Every third input is searched through this reusable per-thread buffer,
    /// so that over time *different* inputs appear at the *same* address with
    /// possibly the same length (hidden state keyed by haystack address or
    /// length would then return a stale answer).
    static SCRATCH: std::cell::RefCell<Vec<u8>> = std::cell::RefCell::new(Vec::new());
}

/// Execute one operation and hash everything it returned.
pub fn do_op(w: &World, si: usize, op: Op, ii: usize) -> u64 {
    if ii % 3 == 0 {
        SCRATCH.with(|s| {
            let mut s = s.borrow_mut();
            s.clear();
            s.extend_from_slice(&w.inputs[ii]);
            do_op_on(w, si, op, ii, &s[..])
        })
    } else {
        do_op_on(w, si, op, ii, &w.inputs[ii])
    }
}

fn do_op_on(w: &World, si: usize, op: Op, ii: usize, hay: &[u8]) -> u64 {
    let mut h = Fnv::new();
    h.str(op.name());
    match &w.searchers[si] {
        Searcher::Packed { s, .. } => match op {
            Op::Find | Op::Earliest | Op::IsMatch | Op::AnchoredFind => {
                hash_ms(&mut h, s.find(hay).map(mm).into_iter());
            }
            Op::SpanFind => {
                let a = hay.len() / 3;
                let b = hay.len() - hay.len() / 4;
                hash_ms(&mut h, s.find_in(hay, Span { start: a, end: b }).map(mm).into_iter());
            }
            _ => hash_ms(&mut h, s.find_iter(hay).take(hay.len() + 2).map(mm)),
        },
        Searcher::Ac { cfg, pats, s } => {
            let npat = pats.len();
            match op {
                Op::Find => match s.try_find(Input::new(hay)) {
                    Ok(m) => hash_ms(&mut h, m.into_iter()),
                    Err(_) => {
                        h.str("err");
                    }
                },
                Op::SpanFind => {
                    let a = hay.len() / 3;
                    let b = hay.len() - hay.len() / 4;
                    match s.try_find(Input::new(hay).span(a..b)) {
                        Ok(m) => hash_ms(&mut h, m.into_iter()),
                        Err(_) => {
                            h.str("err");
                        }
                    }
                }
                Op::AnchoredFind => match s.try_find(Input::new(hay).anchored(aho_corasick::Anchored::Yes)) {
                    Ok(m) => hash_ms(&mut h, m.into_iter()),
                    Err(_) => {
                        h.str("err");
                    }
                },
                Op::Earliest => match s.try_find(Input::new(hay).earliest(true)) {
                    Ok(m) => hash_ms(&mut h, m.into_iter()),
                    Err(_) => {
                        h.str("err");
                    }
                },
                Op::Iter => match s.try_find_iter(Input::new(hay)) {
                    Ok(ms) => hash_ms(&mut h, ms.into_iter()),
                    Err(_) => {
                        h.str("err");
                    }
                },
                Op::IsMatch => {
                    if let (S::Top(ac), true) = (s, cfg.supports(false)) {
                        h.u64(ac.is_match(hay) as u64);
                    } else {
                        h.str("n/a");
                    }
                }
                Op::OverIter => match s.try_find_overlapping_iter(Input::new(hay), (hay.len() + 2) * (npat + 1)) {
                    Ok(ms) => hash_ms(&mut h, ms.into_iter()),
                    Err(_) => {
                        h.str("err");
                    }
                },
                Op::OverStep => {
                    let mut st = OverlappingState::start();
                    let mut n = 0;
                    loop {
                        if s.try_find_overlapping(Input::new(hay), &mut st).is_err() {
                            h.str("err");
                            break;
                        }
                        match st.get_match() {
                            None => break,
                            Some(m) => {
                                let m = mm(m);
                                h.u64(m.0 as u64).u64(m.1 as u64).u64(m.2 as u64);
                            }
                        }
                        n += 1;
                        if n > (hay.len() + 2) * (npat + 1) {
                            h.str("runaway");
                            break;
                        }
                    }
                }
                Op::ReplaceBytes => {
                    let repl: Vec<Vec<u8>> = (0..npat).map(|i| format!("<{}>", i).into_bytes()).collect();
                    let r = match s {
                        S::Top(a) => a.try_replace_all_bytes(hay, &repl),
                        S::N(a) => a.try_replace_all_bytes(hay, &repl),
                        S::C(a) => a.try_replace_all_bytes(hay, &repl),
                        S::D(a) => a.try_replace_all_bytes(hay, &repl),
                    };
                    match r {
                        Ok(b) => {
                            h.bytes(&b);
                        }
                        Err(_) => {
                            h.str("err");
                        }
                    }
                }
                Op::StreamFind => {
                    // odd inputs are delivered in short reads so that the
                    // stream buffer is refilled many times
                    let sched: [usize; 3] = if ii % 2 == 1 { [7, 3, 64] } else { [0, 0, 0] };
                    macro_rules! go {
                        ($a:expr) => {
                            match $a.try_stream_find_iter(crate::stream::SchedReader::new(&hay[..], &sched)) {
                                Err(_) => {
                                    h.str("err");
                                }
                                Ok(it) => {
                                    for r in it.take(hay.len() + 2) {
                                        match r {
                                            Ok(m) => {
                                                let m = mm(m);
                                                h.u64(m.0 as u64).u64(m.1 as u64).u64(m.2 as u64);
                                            }
                                            Err(_) => {
                                                h.str("ioerr");
                                                break;
                                            }
                                        }
                                    }
                                }
                            }
                        };
                    }
                    match s {
                        S::Top(a) => go!(a),
                        S::N(a) => go!(a),
                        S::C(a) => go!(a),
                        S::D(a) => go!(a),
                    }
                }
                Op::StreamReplace => {
                    let repl: Vec<Vec<u8>> = (0..npat).map(|i| format!("<{}>", i).into_bytes()).collect();
                    let mut out = vec![];
                    let sched: [usize; 2] = if ii % 2 == 0 { [5, 11] } else { [0, 0] };
                    let r = match s {
                        S::Top(a) => a.try_stream_replace_all(crate::stream::SchedReader::new(&hay[..], &sched), &mut out, &repl),
                        S::N(a) => a.try_stream_replace_all(crate::stream::SchedReader::new(&hay[..], &sched), &mut out, &repl),
                        S::C(a) => a.try_stream_replace_all(crate::stream::SchedReader::new(&hay[..], &sched), &mut out, &repl),
                        S::D(a) => a.try_stream_replace_all(crate::stream::SchedReader::new(&hay[..], &sched), &mut out, &repl),
                    };
                    match r {
                        Ok(()) => {
                            h.bytes(&out);
                        }
                        Err(_) => {
                            h.str("err");
                        }
                    }
                }
            }
        }
    }
    h.get()
}

/// Build the world of searchers and inputs for a seed.
pub fn build_world(seed: u64, tier: Tier) -> Result<World, String> {
    let mut rng = Rng::new(seed).fork(0xC17);
    let tiny = tier == Tier::Tiny;
    let mut searchers = vec![];
    // pattern lists: one aimed at the packed prefilter, one at rare bytes, one general
    let mut lists: Vec<(Vec<Vec<u8>>, bool)> = vec![];
    // packed territory
    let mut tries = 0;
    loop {
        let (p, ci) = prefilter_patterns(&mut rng);
        tries += 1;
        let total: usize = p.iter().map(|x| x.len()).sum();
        if (p.len() >= 3 && p.iter().all(|x| x.len() >= 2) && !ci && total < 60) || tries > 200 {
            lists.push((p, false));
            break;
        }
    }
    let (p, ci) = loop {
        let (p, ci) = prefilter_patterns(&mut rng);
        if p.iter().map(|x| x.len()).sum::<usize>() < if tiny { 40 } else { 400 } {
            break (p, ci);
        }
    };
    lists.push((p, ci));
    let mut prof = Profile::nonempty();
    prof.many_pct = 0;
    prof.long_pct = 0;
    let (p, _) = gen::patterns(&mut rng, &prof);
    lists.push((p, false));
    let cfgs: Vec<(usize, Cfg)> = if tiny {
        vec![
            (0, Cfg::new(Imp::TopNnfa, Kind::LeftmostFirst)),
            (1, Cfg::new(Imp::LowCnfa, Kind::Standard).ci(lists[1].1)),
        ]
    } else {
        vec![
            (0, Cfg::new(Imp::TopAuto, Kind::LeftmostFirst)),
            (0, Cfg::new(Imp::TopCnfa, Kind::LeftmostLongest).sk(SK::Both)),
            (1, Cfg::new(Imp::TopDfa, Kind::Standard).ci(lists[1].1)),
            (1, Cfg::new(Imp::LowCnfa, Kind::Standard).ci(lists[1].1).bc(false)),
            (2, Cfg::new(Imp::TopNnfa, Kind::Standard).sk(SK::Both)),
            (2, Cfg::new(Imp::LowDfa, Kind::LeftmostFirst).sk(SK::Both)),
            (2, Cfg::new(Imp::LowNnfa, Kind::LeftmostLongest).pre(false)),
        ]
    };
    for (li, cfg) in cfgs {
        let pats = lists[li].0.clone();
        let s = cfg.build(&pats)?;
        searchers.push(Searcher::Ac { cfg, pats, s });
    }
    // one searcher per prefilter variant, so that every prefilter implementation
    // (each could hide state of its own) is shared between threads
    if !tiny {
        let wanted = ["Memmem", "StartBytesOne", "StartBytesTwo", "StartBytesThree", "RareBytesOne", "RareBytesTwo", "RareBytesThree", "Packed"];
        let mut found: Vec<Option<(Vec<Vec<u8>>, bool, Kind)>> = vec![None; wanted.len()];
        for _ in 0..600 {
            if found.iter().all(|f| f.is_some()) {
                break;
            }
            let (p, ci) = prefilter_patterns(&mut rng);
            if p.iter().map(|x| x.len()).sum::<usize>() > 300 {
                continue;
            }
            for kind in [Kind::Standard, Kind::LeftmostFirst] {
                let v = Cfg::new(Imp::LowNnfa, kind).ci(ci).prefilter_variant(&p);
                if let Some(i) = wanted.iter().position(|w| *w == v) {
                    if found[i].is_none() {
                        found[i] = Some((p.clone(), ci, kind));
                    }
                }
            }
        }
        let imps = [Imp::TopAuto, Imp::TopCnfa, Imp::LowNnfa, Imp::TopDfa, Imp::LowCnfa, Imp::TopNnfa, Imp::LowDfa, Imp::TopAuto];
        for (i, f) in found.into_iter().enumerate() {
            if let Some((pats, ci, kind)) = f {
                let cfg = Cfg::new(imps[i], kind).ci(ci).sk(SK::Both);
                let s = cfg.build(&pats)?;
                lists.push((pats.clone(), ci));
                searchers.push(Searcher::Ac { cfg, pats, s });
            }
        }
    }
    // packed searchers used directly (unsafe SIMD code shared across threads)
    let ppats = gen::packed_patterns_with(&mut rng, None, if tiny { 6 } else { 40 });
    let variants: &[Variant] = if tiny { &[Variant::Slim128, Variant::Fat256] } else { &[Variant::Slim128, Variant::Slim256, Variant::Fat256, Variant::RabinKarp] };
    for &v in variants {
        if let Some(s) = packed::build(&ppats, Kind::LeftmostFirst, v) {
            searchers.push(Searcher::Packed { kind: Kind::LeftmostFirst, variant: v, pats: ppats.clone(), s });
        }
    }
    // inputs: a pool shared by all threads
    let mut inputs: Vec<Vec<u8>> = vec![];
    let n_in = if tiny { 4 } else { tier.pick(4, 24, 48) };
    for k in 0..n_in {
        let len = if tiny {
            *rng.pick(&[0usize, 5, 17, 40])
        } else if k % 3 == 0 {
            rng.range(2_000, 20_000)
        } else {
            rng.range(0, 300)
        };
        let li = k % lists.len();
        let mut all: Vec<Vec<u8>> = lists[li].0.clone();
        if k % 2 == 0 {
            all.extend(ppats.iter().cloned());
        }
        inputs.push(decoy_haystack(&mut rng, &all, len, lists[li].1));
    }
    Ok(World { searchers, inputs, seed, tier })
}

#[derive(Clone, Debug)]
pub struct Event {
    pub thread: usize,
    pub si: usize,
    pub op: Op,
    pub ii: usize,
    pub t0: u64,
    pub t1: u64,
    pub hash: u64,
}

pub type Table = std::collections::HashMap<(usize, Op, usize), u64>;

/// Results of the given (searcher, op, input) combinations, computed one
/// after the other on the calling thread.
pub fn sequential_table(
    w: &World,
    keys: &[(usize, Op, usize)],
    on_each: &mut dyn FnMut(usize, Op, usize),
) -> Table {
    let mut t = Table::new();
    for &(si, op, ii) in keys {
        if t.contains_key(&(si, op, ii)) {
            continue;
        }
        on_each(si, op, ii);
        t.insert((si, op, ii), do_op(w, si, op, ii));
    }
    t
}

/// The operation sequence of every thread, fixed by the seed before anything
/// runs (so that the sequential reference covers exactly what will be run).
pub fn plans(w: &World, nthreads: usize, nops: usize, seed: u64) -> Vec<Vec<(usize, Op, usize)>> {
    (0..nthreads)
        .map(|t| {
            let mut rng = Rng::new(seed).fork(0x7000 + t as u64);
            (0..nops)
                .map(|_| (rng.below(w.searchers.len()), *rng.pick(&Op::ALL), rng.below(w.inputs.len())))
                .collect()
        })
        .collect()
}

/// Run `nthreads` threads, each doing `nops` operations drawn from its own
/// PRNG stream. Odd threads work on clones of the searchers.
pub fn concurrent(w: &Arc<World>, plans: &[Vec<(usize, Op, usize)>], with_clones: bool) -> Vec<Event> {
    let nthreads = plans.len();
    let barrier = Arc::new(Barrier::new(nthreads));
    let mut handles = vec![];
    for t in 0..nthreads {
        let plan = plans[t].clone();
        let w = Arc::clone(w);
        let barrier = Arc::clone(&barrier);
        // clones are made here, before the threads run
        let own: Option<World> = if with_clones && t % 2 == 1 {
            Some(World {
                searchers: w.searchers.iter().map(|s| s.duplicate()).collect(),
                inputs: w.inputs.clone(),
                seed: w.seed,
                tier: w.tier,
            })
        } else {
            None
        };
        handles.push(std::thread::spawn(move || {
            let mut log = Vec::with_capacity(plan.len());
            barrier.wait();
            for (si, op, ii) in plan {
                let world: &World = own.as_ref().unwrap_or(&w);
                let t0 = TICKET.fetch_add(1, Ordering::SeqCst);
                let hash = do_op(world, si, op, ii);
                let t1 = TICKET.fetch_add(1, Ordering::SeqCst);
                log.push(Event { thread: t, si, op, ii, t0, t1, hash });
            }
            // drop of the clones happens here, inside the thread
            log
        }));
    }
    let mut all = vec![];
    for h in handles {
        match h.join() {
            Ok(l) => all.extend(l),
            Err(_) => all.push(Event { thread: usize::MAX, si: 0, op: Op::Find, ii: 0, t0: 0, t1: 0, hash: 0 }),
        }
    }
    all
}

/// Number of pairs of operations from different threads whose
/// [call ticket, return ticket] intervals overlap.
pub fn overlapping_pairs(events: &[Event]) -> u64 {
    let mut ev: Vec<(u64, u64)> = events.iter().map(|e| (e.t0, e.t1)).collect();
    ev.sort();
    let starts: Vec<u64> = ev.iter().map(|e| e.0).collect();
    let mut n = 0u64;
    for (i, e) in ev.iter().enumerate() {
        // events after i (by start) that start before this one returns
        let j = starts.partition_point(|&s| s < e.1);
        if j > i + 1 {
            n += (j - i - 1) as u64;
        }
    }
    n
}

fn case_json(w: &World, si: usize, op: Op, ii: usize) -> J {
    let s = &w.searchers[si];
    J::obj()
        .with("searcher", J::s(&s.label()))
        .with("patterns", pats_json(s.pats()))
        .with("patterns_show", pats_show(&s.pats()[..s.pats().len().min(12)]))
        .with("op", J::s(op.name()))
        .with("input", J::Str(hex(&w.inputs[ii][..w.inputs[ii].len().min(4000)])))
        .with("input_len", J::i(w.inputs[ii].len()))
        .with("world_seed", J::u(w.seed))
        .with("world_tier", J::s(w.tier.name()))
}

/// Build, search and drop `n` small searchers that have nothing to do with the
/// world under test. They come from a family of six pattern sets with the
/// same trie shape but different bytes (so that equal state offsets mean
/// different things in different searchers), and every one of their results
/// is compared with the definition: a searcher's results may depend neither on
/// the searchers built before it nor on their searches. Returns (built,
/// first mismatch description).
pub fn unrelated_activity(_seed: u64, n: usize) -> (u64, Option<String>) {
    use crate::oracle::Oracle;
    const L: &[u8] = b"abcdef";
    let sets: Vec<Vec<Vec<u8>>> = (0..6)
        .map(|k| vec![vec![b'x', L[k], b'y'], vec![L[k], L[(k + 1) % 6]], vec![L[(k + 2) % 6]]])
        .collect();
    let hays: Vec<Vec<u8>> = (0..6)
        .flat_map(|j| {
            vec![
                vec![b'x', L[j], L[(j + 1) % 6]],
                vec![b'x', L[j], b'y', L[j]],
                vec![b'q', b'x', L[j], L[j], L[(j + 1) % 6]],
            ]
        })
        .collect();
    // contiguous NFAs are over-represented: they are the automatic choice for
    // most real pattern sets
    let imps = [Imp::TopCnfa, Imp::LowCnfa, Imp::TopCnfa, Imp::LowDfa, Imp::LowNnfa, Imp::LowCnfa, Imp::TopDfa];
    // Long-lived witnesses: built once per process and searched again (and
    // checked) between the fresh builds, so that whatever they leave behind
    // in process-wide state is always recent when a fresh searcher runs, and
    // vice versa.
    static WITNESSES: std::sync::OnceLock<Vec<(usize, Kind, S)>> = std::sync::OnceLock::new();
    let witnesses = WITNESSES.get_or_init(|| {
        let mut v = vec![];
        for r in 0..10 {
            for k in 0..6 {
                let kind = Kind::ALL[(r + k) % 3];
                let imp = [Imp::TopCnfa, Imp::LowCnfa, Imp::LowDfa, Imp::LowNnfa][r % 4];
                if let Ok(s) = Cfg::new(imp, kind).pre(false).build(&sets[k]) {
                    v.push((k, kind, s));
                }
            }
        }
        v
    });
    let mut built = 0u64;
    let mut first_bad = None;
    let check = |what: &str, label: String, k: usize, kind: Kind, s: &S, hay: &[u8], first_bad: &mut Option<String>| {
        let got = s.try_find(Input::new(hay)).ok().flatten();
        let exp = Oracle::new(&sets[k], false, kind).find(hay, 0, hay.len(), false);
        if got != exp && first_bad.is_none() {
            *first_bad = Some(format!(
                "{} {} for patterns {:?} returned {:?} on {:?}, the definition gives {:?}",
                what,
                label,
                sets[k].iter().map(|p| String::from_utf8_lossy(p).to_string()).collect::<Vec<_>>(),
                got,
                String::from_utf8_lossy(hay),
                exp
            ));
        }
    };
    for i in 0..n {
        // a long-lived witness first ...
        if !witnesses.is_empty() {
            let (wk, wkind, ws) = &witnesses[i % witnesses.len()];
            let hay = &hays[(i / witnesses.len()) % hays.len()];
            check("long-lived searcher", format!("#{}", i % witnesses.len()), *wk, *wkind, ws, hay, &mut first_bad);
        }
        // ... then a fresh one
        let k = i % 6;
        let kind = Kind::ALL[(i / 6) % 3];
        let cfg = Cfg::new(imps[i % imps.len()], kind).pre(false);
        let s = match cfg.build(&sets[k]) {
            Ok(s) => s,
            Err(_) => continue,
        };
        built += 1;
        let hay = &hays[(i / 18) % hays.len()];
        check("fresh searcher number", format!("{} ({})", i, cfg.label()), k, kind, &s, hay, &mut first_bad);
    }
    (built, first_bad)
}

/// The whole history check; used by the native, TSan and Miri stages and by
/// the purity binary (which passes hooks to announce the op in flight).
pub fn history_check(
    rep: &mut Report,
    w: &Arc<World>,
    nthreads: usize,
    nops: usize,
    seed: u64,
    with_clones: bool,
    announce: &mut dyn FnMut(&str, usize, Op, usize),
) {
    let dbg_before: Vec<u64> = if cfg!(miri) { vec![] } else { w.searchers.iter().map(|s| s.debug_hash()).collect() };
    // Phase 1 plans: every thread its own random sequence. Phase 2 plans
    // ("hammer"): all threads run the *same* sequence, each operation repeated
    // many times in a row, so that hidden state touched by one operation on
    // one searcher is hit by all threads at the same moment.
    let mut pl = plans(w, nthreads, nops, seed);
    {
        let mut rng = Rng::new(seed).fork(0x4A33);
        let bursts = (nops / 40).max(2);
        let reps = if cfg!(miri) { 2 } else { 40 };
        let mut common: Vec<(usize, Op, usize)> = vec![];
        for _ in 0..bursts {
            let key = (rng.below(w.searchers.len()), *rng.pick(&Op::ALL), rng.below(w.inputs.len()));
            // short inputs make the calls short and the contention window dense
            let key = if w.inputs[key.2].len() > 400 { (key.0, key.1, (0..w.inputs.len()).find(|&i| w.inputs[i].len() <= 400 && w.inputs[i].len() > 8).unwrap_or(key.2)) } else { key };
            for _ in 0..reps {
                common.push(key);
            }
        }
        for p in pl.iter_mut() {
            p.extend(common.iter().copied());
        }
    }
    let keys: Vec<(usize, Op, usize)> = pl.iter().flat_map(|p| p.iter().copied()).collect();
    let before = sequential_table(w, &keys, &mut |si, op, ii| announce("sequential-before", si, op, ii));
    rep.evals(before.len() as u64);
    announce("concurrent", 0, Op::Find, 0);
    let events = concurrent(w, &pl, with_clones);
    // Unrelated activity between the passes: tens of thousands of other small
    // searchers of every kind are built, searched and dropped (a searcher's
    // results may not depend on what happens to *other* searchers either,
    // e.g. through process-wide tables keyed by build counters).
    if !cfg!(miri) {
        announce("unrelated-activity", 0, Op::Find, 0);
        // (sanitizer builds are several times slower: the driver sets ACMON_LIGHT there)
        let light = std::env::var("ACMON_LIGHT").is_ok();
        let (n, bad) = unrelated_activity(seed, if light { 3000 } else { w.tier.pick(200, 70_000, 140_000) });
        rep.tally_n("unrelated_searchers_built", n);
        rep.evals(n);
        if let Some(d) = bad {
            rep.violation(
                "history:unrelated_searcher_wrong_result",
                format!("a freshly built searcher gave a wrong result after many other searchers had been built and used: {}", d),
                J::obj().with("seed", J::u(seed)).with("world_seed", J::u(w.seed)).with("world_tier", J::s(w.tier.name())),
            );
        }
    }
    announce("sequential-after", 0, Op::Find, 0);
    let after = sequential_table(w, &keys, &mut |si, op, ii| announce("sequential-after", si, op, ii));
    rep.evals(after.len() as u64);
    // order independence: the same operations one after the other in reverse
    // and in a shuffled order, and each one twice in a row, must give the
    // results of the first pass (a memo that survives between calls would
    // make a result depend on what ran before it)
    {
        let mut uniq: Vec<(usize, Op, usize)> = before.keys().copied().collect();
        uniq.sort();
        let mut orders: Vec<Vec<(usize, Op, usize)>> = vec![];
        let mut rev = uniq.clone();
        rev.reverse();
        orders.push(rev);
        let mut sh = uniq.clone();
        Rng::new(seed ^ 0x0DE5).shuffle(&mut sh);
        orders.push(sh);
        // under Miri keep it short
        let cap = if cfg!(miri) { 40 } else { 4000 };
        for (oi, order) in orders.iter().enumerate() {
            for &(si, op, ii) in order.iter().take(cap) {
                announce("sequential-reordered", si, op, ii);
                let h1 = do_op(w, si, op, ii);
                let h2 = if oi == 0 { do_op(w, si, op, ii) } else { h1 };
                rep.eval();
                rep.tally("reordered_sequential_ops");
                if Some(&h1) != before.get(&(si, op, ii)) || h1 != h2 {
                    rep.violation(
                        &format!("history:{}:order_dependent_result", op.name()),
                        format!(
                            "{} on searcher {} gave a different result when run in a different order / twice in a row",
                            op.name(),
                            w.searchers[si].label()
                        ),
                        case_json(w, si, op, ii).with("seed", J::u(seed)),
                    );
                    break;
                }
            }
        }
    }
    let dbg_after: Vec<u64> = if cfg!(miri) { vec![] } else { w.searchers.iter().map(|s| s.debug_hash()).collect() };
    // --- purity across history
    for (k, v) in &before {
        if after.get(k) != Some(v) {
            rep.violation(
                &format!("history:{}:sequential_result_changed", k.1.name()),
                format!("{} on searcher {} gave a different result after the concurrent phase than before it", k.1.name(), w.searchers[k.0].label()),
                case_json(w, k.0, k.1, k.2).with("seed", J::u(seed)),
            );
        }
    }
    if dbg_before != dbg_after {
        rep.violation("history:debug_rendering_changed", "the Debug rendering (all states, transitions, match lists) of a searcher changed".into(), J::obj().with("seed", J::u(seed)));
    }
    // --- every concurrent result equals the sequential one
    let mut mism = 0;
    for e in &events {
        rep.eval();
        if e.thread == usize::MAX {
            rep.violation("concurrent:thread_panicked", "a worker thread panicked".into(), J::obj().with("seed", J::u(seed)));
            continue;
        }
        rep.tally(&format!("concurrent_{}", e.op.name()));
        if before.get(&(e.si, e.op, e.ii)) != Some(&e.hash) {
            mism += 1;
            if mism <= 5 {
                rep.violation(
                    &format!("concurrent:{}:result_differs", e.op.name()),
                    format!(
                        "thread {} got a result for {} on {} that differs from the sequential result (tickets {}..{})",
                        e.thread, e.op.name(), w.searchers[e.si].label(), e.t0, e.t1
                    ),
                    case_json(w, e.si, e.op, e.ii).with("seed", J::u(seed)).with("threads", J::i(nthreads)),
                );
            }
        }
    }
    let pairs = overlapping_pairs(&events);
    rep.tally_n("overlapping_operation_pairs", pairs);
    rep.tally_n("concurrent_operations", events.len() as u64);
    rep.tally_n("threads", nthreads as u64);
    // distinct: (searcher, op, input) combinations exercised concurrently
    for e in &events {
        rep.nontrivial(Fnv::new().u64(seed).u64(e.si as u64).str(e.op.name()).u64(e.ii as u64).get());
    }
    if rep.want_sample() {
        let mut by_start: Vec<&Event> = events.iter().collect();
        by_start.sort_by_key(|e| e.t0);
        rep.sample(
            J::obj()
                .with("seed", J::u(seed))
                .with("searchers", J::Arr(w.searchers.iter().map(|s| J::Str(s.label())).collect()))
                .with("threads", J::i(nthreads))
                .with("operations", J::i(events.len()))
                .with("overlapping_pairs_observed", J::u(pairs))
                .with(
                    "history_excerpt",
                    J::Arr(
                        by_start
                            .iter()
                            .take(10)
                            .map(|e| {
                                J::obj()
                                    .with("thread", J::i(e.thread))
                                    .with("op", J::s(e.op.name()))
                                    .with("searcher", J::i(e.si))
                                    .with("input", J::i(e.ii))
                                    .with("call_ticket", J::u(e.t0))
                                    .with("return_ticket", J::u(e.t1))
                                    .with("result_hash", J::Str(format!("{:016x}", e.hash)))
                            })
                            .collect(),
                    ),
                ),
        );
    }
}

pub fn run(ctx: &Ctx, rep: &mut Report) {
    let stage: &str = if ctx.stage.is_empty() { "threads" } else { &ctx.stage };
    let (rounds, nthreads, nops) = match stage {
        "miri" => (1, 3, 12),
        "tsan" => (ctx.tier.pick(1, 2, 12), 8, ctx.tier.pick(50, 400, 2000)),
        _ => (ctx.tier.pick(1, 6, 200), 8, ctx.tier.pick(50, 3000, 6000)),
    };
    for r in 0..rounds {
        let seed = ctx.seed.wrapping_mul(1000).wrapping_add((ctx.shard * 1000 + r) as u64);
        let tier = if stage == "miri" { Tier::Tiny } else { ctx.tier };
        let w = match guard(|| build_world(seed, tier)) {
            Ok(Ok(w)) => Arc::new(w),
            Ok(Err(e)) => {
                rep.inconclusive(format!("world build failed: {}", e));
                continue;
            }
            Err(p) => {
                rep.violation("build:panic", p, J::obj().with("seed", J::u(seed)));
                continue;
            }
        };
        rep.tally(&format!("rounds_{}", stage));
        history_check(rep, &w, nthreads, nops, seed, true, &mut |_, _, _, _| {});
    }
    if stage == "threads" {
        clone_checks(rep, ctx.seed.wrapping_add(ctx.shard as u64), ctx.tier.pick(14, 700, 7000));
    }
}

/// Clones: `x.clone()` and `dst.clone_from(&x)` (onto a searcher that was built
/// from other patterns with another match kind) must answer exactly like `x`,
/// and `x` itself must be unaffected, for all four searcher types and for the
/// packed searcher. `clone_from` may be overridden to re-use allocations;
/// whatever it leaves behind of the old value is hidden state.
pub fn clone_checks(rep: &mut Report, seed: u64, n: usize) {
    use crate::walk::answers;
    let mut root = Rng::new(seed).fork(0xC10E);
    for i in 0..n {
        let mut rng = root.fork(i as u64);
        let (pats, ci) = crate::meta::prefilter_patterns(&mut rng);
        let (other, _) = crate::meta::prefilter_patterns(&mut rng);
        let imp = Imp::ALL[i % Imp::ALL.len()];
        let kind = Kind::ALL[(i / 7) % 3];
        let okind = Kind::ALL[(i / 7 + 1 + (i % 2)) % 3];
        let cfg = Cfg::new(imp, kind).ci(ci).sk(crate::cfg::SK::Both);
        let ocfg = Cfg::new(imp, okind).sk(crate::cfg::SK::Both).pre(i % 3 == 0);
        let (src, dst) = match (cfg.build(&pats), ocfg.build(&other)) {
            (Ok(a), Ok(b)) => (a, b),
            _ => continue,
        };
        let cloned = match (&src, dst) {
            (S::Top(a), S::Top(mut d)) => {
                d.clone_from(a);
                (S::Top(a.clone()), S::Top(d))
            }
            (S::N(a), S::N(mut d)) => {
                d.clone_from(a);
                (S::N(a.clone()), S::N(d))
            }
            (S::C(a), S::C(mut d)) => {
                d.clone_from(a);
                (S::C(a.clone()), S::C(d))
            }
            (S::D(a), S::D(mut d)) => {
                d.clone_from(a);
                (S::D(a.clone()), S::D(d))
            }
            _ => continue,
        };
        rep.tally("clone_pairs_checked");
        for k in 0..4 {
            let len = rng.range(0, 80);
            let hay = crate::meta::decoy_haystack(&mut rng, &pats, len, ci);
            let sp = if k % 2 == 0 { (0, hay.len()) } else { gen::span(&mut rng, hay.len()) };
            for anchored in [false, true] {
                let a0 = answers(&src, kind, &hay, sp, anchored);
                let a1 = answers(&cloned.0, kind, &hay, sp, anchored);
                let a2 = answers(&cloned.1, kind, &hay, sp, anchored);
                rep.evals(2);
                let mk = |what: &str, got: &crate::walk::Answers| {
                    (
                        format!("clone:{}:{}", what, imp.name()),
                        format!("a searcher made by {} answers differently from its source ({}; the destination had been built with {}): {:?} vs {:?}", what, cfg.label(), ocfg.label(), got, a0),
                    )
                };
                let case = || J::obj().with("what", J::s("clone")).with("seed", J::u(seed)).with("index", J::i(i)).with("patterns", crate::report::pats_json(&pats)).with("cfg", cfg.to_json()).with("haystack", J::Str(crate::util::hex(&hay)));
                if a1 != a0 {
                    let (sg, d) = mk("clone()", &a1);
                    rep.violation(&sg, d, case());
                    return;
                }
                if a2 != a0 {
                    let (sg, d) = mk("clone_from()", &a2);
                    rep.violation(&sg, d, case());
                    return;
                }
            }
        }
    }
    // packed searchers
    for i in 0..n / 4 {
        let mut rng = root.fork(0x9000 + i as u64);
        let pats = gen::packed_patterns(&mut rng);
        let other = gen::packed_patterns(&mut rng);
        let kind = [Kind::LeftmostFirst, Kind::LeftmostLongest][i % 2];
        let okind = [Kind::LeftmostLongest, Kind::LeftmostFirst][i % 2];
        let v = crate::packed::Variant::ALL[i % crate::packed::Variant::ALL.len()];
        let (src, mut dst) = match (crate::packed::build(&pats, kind, v), crate::packed::build(&other, okind, crate::packed::Variant::ALL[(i + 1) % crate::packed::Variant::ALL.len()])) {
            (Some(a), Some(b)) => (a, b),
            _ => continue,
        };
        dst.clone_from(&src);
        let c = src.clone();
        rep.tally("packed_clone_pairs_checked");
        for _ in 0..4 {
            let len = rng.range(0, 120);
            let hay = gen::vec_haystack(&mut rng, &pats, len);
            let run = |s: &aho_corasick::packed::Searcher| -> Vec<(usize, usize, usize)> { s.find_iter(&hay).take(hay.len() + 2).map(|m| (m.pattern().as_usize(), m.start(), m.end())).collect() };
            let (r0, r1, r2) = (run(&src), run(&c), run(&dst));
            rep.evals(2);
            if r1 != r0 || r2 != r0 {
                rep.violation(
                    &format!("clone:packed:{}", if r1 != r0 { "clone()" } else { "clone_from()" }),
                    format!("a packed searcher made by clone/clone_from answers differently from its source: {:?} / {:?} vs {:?}", r1, r2, r0),
                    J::obj().with("what", J::s("clone")).with("seed", J::u(seed)).with("patterns", crate::report::pats_json(&pats)).with("haystack", J::Str(crate::util::hex(&hay))),
                );
                return;
            }
        }
    }
}

/// Replay: rebuild the world of the recorded seed and run the history check
/// several times.
pub fn replay(case: &J, rep: &mut Report) -> Result<(), String> {
    let seed = case
        .get("world_seed")
        .or_else(|| case.get("seed"))
        .and_then(|v| v.as_i64())
        .ok_or("seed")? as u64;
    let tier = match case.get("world_tier").and_then(|v| v.as_str()) {
        Some("thorough") => Tier::Thorough,
        Some("tiny") => Tier::Tiny,
        _ => Tier::Quick,
    };
    if case.get("what").and_then(|v| v.as_str()) == Some("clone") {
        clone_checks(rep, seed, 7000);
        return Ok(());
    }
    let w = Arc::new(build_world(seed, tier)?);
    for k in 0..5 {
        history_check(rep, &w, 8, 2000, seed + k, true, &mut |_, _, _, _| {});
    }
    Ok(())
}

#[allow(dead_code)]
fn _t(_: &dyn Automaton) {}
