//! acmon: runtime monitors for aho-corasick.
//!
//!   acmon run <PROP> --tier quick|thorough|tiny --seed N --shard i/n
//!             [--stage name] --out file.json
//!   acmon replay <replay.json> --out file.json
//!
//! The process writes one JSON report; the python driver merges shards,
//! decides the verdict and writes the evidence file.


use acmon::report::{Ctx, Report, Tier};
use acmon::util::J;
use acmon::{c13, mem, meta, packed, sem, stream, threads, walk, work};

fn usage() -> ! {
    eprintln!(
        "usage: acmon run <PROP> --tier T --seed N --shard i/n [--stage S] --out F\n\
         \x20      acmon replay <file> --out F"
    );
    std::process::exit(64);
}

fn run_monitor(prop: &str, ctx: &Ctx, rep: &mut Report) -> Result<(), String> {
    match prop {
        "C01" => sem::run_c01(ctx, rep),
        "C02" => sem::run_c02(ctx, rep),
        "C03" => sem::run_c03(ctx, rep),
        "C09" => sem::run_c09(ctx, rep),
        "C14" => sem::run_c14(ctx, rep),
        "C13" => c13::run(ctx, rep),
        "C04" => walk::run_c04(ctx, rep),
        "C16" => walk::run_c16(ctx, rep),
        "C07" | "C08" | "C18" => stream::run(prop, ctx, rep),
        "C06" => packed::run(ctx, rep),
        "C05" => meta::run_c05(ctx, rep),
        "C19" => work::run_c19(ctx, rep),
        "C15" => mem::run(ctx, rep),
        "C17" => threads::run(ctx, rep),
        "C20" => work::run_c20(ctx, rep),
        "C10" => meta::run_c10(ctx, rep),
        "C11" => meta::run_c11(ctx, rep),
        "C12" => meta::run_c12(ctx, rep),
        _ => return Err(format!("unknown property {}", prop)),
    }
    Ok(())
}

fn replay_monitor(prop: &str, case: &J, rep: &mut Report) -> Result<(), String> {
    match prop {
        "C01" | "C02" | "C03" | "C09" | "C14" => sem::replay(prop, case, rep),
        "C13" => c13::replay(case, rep),
        "C04" => walk::replay_c04(case, rep),
        "C16" => walk::replay_c16(case, rep),
        "C07" | "C08" | "C18" => stream::replay(prop, case, rep),
        "C06" => packed::replay(case, rep),
        "C05" => meta::replay_c05(case, rep),
        "C19" => work::replay_c19(case, rep),
        "C15" => mem::replay(case, rep),
        "C17" => threads::replay(case, rep),
        "C20" => work::replay_c20(case, rep),
        "C10" => meta::replay_c10(case, rep),
        "C11" => meta::replay_c11(case, rep),
        "C12" => meta::replay_c12(case, rep),
        _ => Err(format!("unknown property {}", prop)),
    }
}

/// `acmon merge-hashes f1 f2 ...` prints the size of the union of the
/// distinct-case hash sets written by the shards.
fn merge_hashes(files: &[String]) -> ! {
    let mut all: Vec<u64> = vec![];
    for f in files {
        match std::fs::read(f) {
            Ok(b) => {
                for c in b.chunks_exact(8) {
                    all.push(u64::from_le_bytes(c.try_into().unwrap()));
                }
            }
            Err(e) => {
                eprintln!("cannot read {}: {}", f, e);
                std::process::exit(2);
            }
        }
    }
    all.sort_unstable();
    all.dedup();
    println!("{}", all.len());
    std::process::exit(0);
}

fn main() {
    let args: Vec<String> = std::env::args().collect();
    if args.len() < 3 {
        usage();
    }
    if args[1] == "merge-hashes" {
        merge_hashes(&args[2..]);
    }
    if args[1] == "cost" {
        // acmon cost <family> <n> <mode> <seed>   (run under callgrind by the driver)
        if args.len() < 6 {
            usage();
        }
        let n: usize = args[3].parse().unwrap_or_else(|_| usage());
        let seed: u64 = args[5].parse().unwrap_or_else(|_| usage());
        match work::cost_main(&args[2], n, &args[4], seed) {
            Ok(j) => {
                println!("{}", j);
                std::process::exit(0);
            }
            Err(e) => {
                eprintln!("cost: {}", e);
                std::process::exit(2);
            }
        }
    }
    let mut tier = Tier::Quick;
    let mut seed: u64 = 1;
    let mut shard = (0usize, 1usize);
    let mut stage = String::new();
    let mut out: Option<String> = None;
    let mut i = 3;
    while i < args.len() {
        let need = |i: usize| -> &str {
            args.get(i + 1).map(|s| s.as_str()).unwrap_or_else(|| usage())
        };
        match args[i].as_str() {
            "--tier" => {
                tier = match need(i) {
                    "quick" => Tier::Quick,
                    "thorough" => Tier::Thorough,
                    "tiny" => Tier::Tiny,
                    _ => usage(),
                };
                i += 2;
            }
            "--seed" => {
                seed = need(i).parse().unwrap_or_else(|_| usage());
                i += 2;
            }
            "--shard" => {
                let v = need(i);
                let mut it = v.split('/');
                let a = it.next().and_then(|x| x.parse().ok());
                let b = it.next().and_then(|x| x.parse().ok());
                match (a, b) {
                    (Some(a), Some(b)) if a < b => shard = (a, b),
                    _ => usage(),
                }
                i += 2;
            }
            "--stage" => {
                stage = need(i).to_string();
                i += 2;
            }
            "--out" => {
                out = Some(need(i).to_string());
                i += 2;
            }
            _ => usage(),
        }
    }
    sem::install_quiet_panic_hook();
    if let Some(p) = &out {
        mem::install_crash_reporter(&format!("{}.progress", p));
    }
    // Stall watchdog: if no evaluation completes for a long time the shard
    // most likely sits in a non-terminating call. That is reported as
    // "inconclusive" (exit 3), never as a violation: wall-clock is not an
    // oracle. It only makes such a run end quickly instead of waiting for the
    // driver's generous global watchdog.
    if !cfg!(miri) {
        let limit: u64 = std::env::var("ACMON_STALL_SECS").ok().and_then(|v| v.parse().ok()).unwrap_or(180);
        std::thread::spawn(move || {
            let mut last = acmon::report::PROGRESS.load(std::sync::atomic::Ordering::Relaxed);
            let mut idle = 0u64;
            loop {
                std::thread::sleep(std::time::Duration::from_secs(5));
                let now = acmon::report::PROGRESS.load(std::sync::atomic::Ordering::Relaxed);
                if now == last {
                    idle += 5;
                    if idle >= limit {
                        eprintln!("STALLED: no evaluation completed for {} s (after {} evaluations)", idle, now);
                        std::process::exit(3);
                    }
                } else {
                    idle = 0;
                    last = now;
                }
            }
        });
    }
    let started = std::time::Instant::now();
    let (mut rep, err) = match args[1].as_str() {
        "run" => {
            let prop = args[2].clone();
            let ctx = Ctx { tier, seed, shard: shard.0, nshards: shard.1, stage };
            let mut rep = Report::new(&prop);
            let err = run_monitor(&prop, &ctx, &mut rep).err();
            (rep, err)
        }
        "replay" => {
            let text = match std::fs::read_to_string(&args[2]) {
                Ok(t) => t,
                Err(e) => {
                    eprintln!("cannot read {}: {}", args[2], e);
                    std::process::exit(2);
                }
            };
            let j = match J::parse(&text) {
                Ok(j) => j,
                Err(e) => {
                    eprintln!("cannot parse {}: {}", args[2], e);
                    std::process::exit(2);
                }
            };
            let prop = j
                .get("property")
                .and_then(|v| v.as_str())
                .unwrap_or("")
                .to_string();
            let mut rep = Report::new(&prop);
            let err = match j.get("case") {
                None => Some("replay file has no case".to_string()),
                Some(c) => replay_monitor(&prop, c, &mut rep).err(),
            };
            (rep, err)
        }
        _ => usage(),
    };
    if let Ok(g) = acmon::cfg::ACCESSOR_MISMATCH.lock() {
        if let Some(d) = g.as_ref() {
            rep.violation("accessors:mismatch", d.clone(), J::Null);
        }
    }
    rep.tally_n("accessor_cross_checks", acmon::cfg::ACCESSOR_CHECKS.with(|c| c.get()));
    let mut j = rep.to_json();
    j.set("wall_ms", J::u(started.elapsed().as_millis() as u64));
    if let Some(e) = &err {
        j.set("harness_error", J::s(e));
    }
    let text = j.to_string();
    match out {
        Some(p) => {
            if let Err(e) = rep.write_hashes(&format!("{}.hashes", p)) {
                eprintln!("cannot write {}.hashes: {}", p, e);
                std::process::exit(2);
            }
            if let Err(e) = std::fs::write(&p, text) {
                eprintln!("cannot write {}: {}", p, e);
                std::process::exit(2);
            }
        }
        None => println!("{}", text),
    }
    if err.is_some() {
        std::process::exit(2);
    }
}
