//! C17, observer "write-protected searcher heap".
//!
//! All searchers are built while this binary's global allocator serves from
//! an mmap'ed arena. The arena is then made read-only (mprotect) and the
//! whole API mix runs against the searchers, first sequentially (each
//! operation announced, so that a fault names the exact call), then from
//! several threads. Any store into memory owned by a built searcher is a
//! SIGSEGV in this process; the parent reports it. Clones and drops
//! (legitimate reference-count writes) only happen outside the protected
//! window: inside it the threads share `&World` and nothing is dropped.
//!
//!   purity run C17 --tier T --seed N --shard i/n --out F

use std::alloc::{GlobalAlloc, Layout, System};
use std::sync::atomic::{AtomicBool, AtomicUsize, Ordering};
use std::sync::Arc;

use acmon::report::{Ctx, Report, Tier};
use acmon::threads::{self, Op};
use acmon::util::J;

extern "C" {
    fn mmap(addr: *mut u8, len: usize, prot: i32, flags: i32, fd: i32, off: i64) -> *mut u8;
    fn mprotect(addr: *mut u8, len: usize, prot: i32) -> i32;
}

const ARENA_SIZE: usize = 1 << 30; // virtual; MAP_NORESERVE

struct ArenaAlloc;

static USE_ARENA: AtomicBool = AtomicBool::new(false);
static ARENA_BASE: AtomicUsize = AtomicUsize::new(0);
static ARENA_TOP: AtomicUsize = AtomicUsize::new(0);

fn arena_base() -> usize {
    let b = ARENA_BASE.load(Ordering::Acquire);
    if b != 0 {
        return b;
    }
    unsafe {
        // PROT_READ|PROT_WRITE, MAP_PRIVATE|MAP_ANONYMOUS|MAP_NORESERVE
        let p = mmap(core::ptr::null_mut(), ARENA_SIZE, 3, 0x02 | 0x20 | 0x4000, -1, 0);
        if p as isize == -1 || p.is_null() {
            std::process::abort();
        }
        ARENA_BASE.store(p as usize, Ordering::Release);
        ARENA_TOP.store(p as usize, Ordering::Release);
        p as usize
    }
}

fn in_arena(p: *mut u8) -> bool {
    let b = ARENA_BASE.load(Ordering::Acquire);
    b != 0 && (p as usize) >= b && (p as usize) < b + ARENA_SIZE
}

unsafe impl GlobalAlloc for ArenaAlloc {
    unsafe fn alloc(&self, l: Layout) -> *mut u8 {
        if USE_ARENA.load(Ordering::Acquire) {
            let base = arena_base();
            loop {
                let top = ARENA_TOP.load(Ordering::Acquire);
                let start = (top + l.align() - 1) & !(l.align() - 1);
                let end = start + l.size().max(1);
                if end > base + ARENA_SIZE {
                    return core::ptr::null_mut();
                }
                if ARENA_TOP.compare_exchange(top, end, Ordering::AcqRel, Ordering::Acquire).is_ok() {
                    return start as *mut u8;
                }
            }
        }
        System.alloc(l)
    }
    unsafe fn dealloc(&self, p: *mut u8, l: Layout) {
        if in_arena(p) {
            return; // bump arena: nothing to do, and never a write
        }
        System.dealloc(p, l)
    }
    unsafe fn realloc(&self, p: *mut u8, l: Layout, new_size: usize) -> *mut u8 {
        if in_arena(p) {
            let nl = Layout::from_size_align_unchecked(new_size, l.align());
            let q = self.alloc(nl);
            if !q.is_null() {
                core::ptr::copy_nonoverlapping(p, q, l.size().min(new_size));
            }
            return q;
        }
        System.realloc(p, l, new_size)
    }
}

#[global_allocator]
static GLOBAL: ArenaAlloc = ArenaAlloc;

fn protect(readonly: bool) {
    let base = ARENA_BASE.load(Ordering::Acquire);
    if base == 0 {
        return;
    }
    let top = ARENA_TOP.load(Ordering::Acquire);
    let len = ((top - base) + 4095) & !4095;
    unsafe {
        if mprotect(base as *mut u8, len.max(4096), if readonly { 1 } else { 3 }) != 0 {
            std::process::abort();
        }
    }
}

fn main() {
    let args: Vec<String> = std::env::args().collect();
    let mut tier = Tier::Quick;
    let mut seed = 1u64;
    let mut shard = (0usize, 1usize);
    let mut out: Option<String> = None;
    let mut replay: Option<String> = None;
    let mut i = 1;
    while i < args.len() {
        match args[i].as_str() {
            "run" => {
                i += 2; // skip property id
            }
            "replay" => {
                replay = args.get(i + 1).cloned();
                i += 2;
            }
            "--tier" => {
                tier = match args.get(i + 1).map(|s| s.as_str()) {
                    Some("thorough") => Tier::Thorough,
                    Some("tiny") => Tier::Tiny,
                    _ => Tier::Quick,
                };
                i += 2;
            }
            "--seed" => {
                seed = args.get(i + 1).and_then(|s| s.parse().ok()).unwrap_or(1);
                i += 2;
            }
            "--shard" => {
                if let Some(v) = args.get(i + 1) {
                    let mut it = v.split('/');
                    if let (Some(a), Some(b)) = (it.next().and_then(|x| x.parse().ok()), it.next().and_then(|x| x.parse().ok())) {
                        shard = (a, b);
                    }
                }
                i += 2;
            }
            "--stage" => i += 2,
            "--out" => {
                out = args.get(i + 1).cloned();
                i += 2;
            }
            _ => i += 1,
        }
    }
    acmon::sem::install_quiet_panic_hook();
    if let Some(p) = &out {
        acmon::mem::install_crash_reporter(&format!("{}.progress", p));
    }
    let started = std::time::Instant::now();
    let ctx = Ctx { tier, seed, shard: shard.0, nshards: shard.1, stage: "purity".into() };
    let mut rep = Report::new("C17");
    let mut world_seeds: Vec<(u64, Tier)> = vec![];
    if let Some(path) = &replay {
        // a replay file names the world seed
        let text = std::fs::read_to_string(path).unwrap_or_default();
        let j = J::parse(&text).unwrap_or(J::Null);
        let c = j.get("case").cloned().unwrap_or(J::Null);
        let s = c.get("world_seed").or_else(|| c.get("seed")).and_then(|v| v.as_i64()).unwrap_or(1) as u64;
        let t = match c.get("world_tier").and_then(|v| v.as_str()) {
            Some("thorough") => Tier::Thorough,
            _ => Tier::Quick,
        };
        world_seeds.push((s, t));
    } else {
        let rounds = tier.pick(1, 3, 40);
        for r in 0..rounds {
            world_seeds.push((ctx.seed.wrapping_mul(1000).wrapping_add((500 + ctx.shard * 1000 + r) as u64), tier));
        }
    }
    for (wseed, wtier) in world_seeds {
        // ---- build phase: everything the searchers own lives in the arena
        USE_ARENA.store(true, Ordering::Release);
        let world = threads::build_world(wseed, wtier);
        USE_ARENA.store(false, Ordering::Release);
        // The Arc header (reference counts, written by Arc::clone when the
        // threads are spawned) is allocated outside the arena; everything the
        // searchers themselves own stays inside.
        let world = match world {
            Ok(w) => Arc::new(w),
            Err(e) => {
                rep.inconclusive(format!("world build failed: {}", e));
                continue;
            }
        };
        let arena_bytes = ARENA_TOP.load(Ordering::Acquire) - ARENA_BASE.load(Ordering::Acquire);
        rep.tally_n("arena_bytes_protected", arena_bytes as u64);
        // ---- protected window
        let w2 = Arc::clone(&world);
        protect(true);
        rep.tally("protected_windows");
        threads::history_check(
            &mut rep,
            &world,
            8,
            tier.pick(20, 1500, 4000),
            wseed,
            false, // no clones inside the protected window
            &mut |phase: &str, si: usize, op: Op, ii: usize| {
                // announce the call about to run so that a fault names it
                let s = &w2.searchers[si];
                acmon::mem::announce_text(&format!(
                    "{{\"what\":\"purity\",\"phase\":\"{}\",\"searcher\":\"{}\",\"op\":\"{}\",\"input_index\":{},\"world_seed\":{},\"world_tier\":\"{}\",\"seed\":{}}}",
                    phase,
                    s.label(),
                    op.name(),
                    ii,
                    wseed,
                    wtier.name(),
                    wseed
                ));
            },
        );
        drop(w2);
        protect(false);
        // the world is dropped here, outside the protected window
        drop(world);
    }
    let mut j = rep.to_json();
    j.set("wall_ms", J::u(started.elapsed().as_millis() as u64));
    let text = j.to_string();
    match out {
        Some(p) => {
            let _ = rep.write_hashes(&format!("{}.hashes", p));
            if std::fs::write(&p, text).is_err() {
                std::process::exit(2);
            }
        }
        None => println!("{}", text),
    }
}
