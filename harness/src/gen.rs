//! Workload generators: small-scope enumerators and seeded structured-random
//! pattern lists / haystacks / spans.

use crate::util::Rng;

/// All byte strings over `alpha` of length 0..=max_len, shortest first.
pub fn all_strings(alpha: &[u8], max_len: usize) -> Vec<Vec<u8>> {
    let mut out: Vec<Vec<u8>> = vec![vec![]];
    let mut prev: Vec<Vec<u8>> = vec![vec![]];
    for _ in 0..max_len {
        let mut next = vec![];
        for p in &prev {
            for &a in alpha {
                let mut q = p.clone();
                q.push(a);
                next.push(q);
            }
        }
        out.extend(next.iter().cloned());
        prev = next;
    }
    out
}

/// All *lists* (order and duplicates matter) of at most `max_pats` strings
/// from `strings`.
pub fn all_lists(strings: &[Vec<u8>], max_pats: usize) -> Vec<Vec<Vec<u8>>> {
    let mut out: Vec<Vec<Vec<u8>>> = vec![vec![]];
    let mut prev: Vec<Vec<Vec<u8>>> = vec![vec![]];
    for _ in 0..max_pats {
        let mut next = vec![];
        for l in &prev {
            for s in strings {
                let mut q = l.clone();
                q.push(s.clone());
                next.push(q);
            }
        }
        out.extend(next.iter().cloned());
        prev = next;
    }
    out
}

/// All spans (s, e) with 0 <= s <= e <= len, plus (e+1, e) for every e.
pub fn all_spans(len: usize, with_done: bool) -> Vec<(usize, usize)> {
    let mut v = vec![];
    for e in 0..=len {
        for s in 0..=e {
            v.push((s, e));
        }
        if with_done {
            v.push((e + 1, e));
        }
    }
    v
}

/// The pool from which random alphabets are drawn: letters in both cases,
/// the four bytes adjacent to the ASCII letter ranges, a digit, NUL, and
/// high bytes including two that differ by 0x20 without being letters.
pub const POOL: [u8; 18] = [
    b'a', b'b', b'c', b'A', b'B', b'z', b'Z', b'@', b'[', b'`', b'{', b'1',
    0x00, 0x80, 0xC1, 0xE1, 0xFF, b' ',
];

#[derive(Clone, Debug)]
pub struct Profile {
    pub allow_empty: bool,
    pub min_pats: usize,
    pub max_pats: usize,
    pub max_len: usize,
    /// probability (percent) of a "many patterns" list (30..=130 patterns)
    pub many_pct: usize,
    /// probability (percent) of including a long (200..=600 byte) pattern
    pub long_pct: usize,
    /// restrict the alphabet to ASCII letters (both cases)
    pub letters_only: bool,
}

impl Profile {
    pub fn default_sem() -> Profile {
        Profile {
            allow_empty: true,
            min_pats: 0,
            max_pats: 6,
            max_len: 5,
            many_pct: 3,
            long_pct: 2,
            letters_only: false,
        }
    }
    pub fn nonempty() -> Profile {
        Profile { allow_empty: false, min_pats: 1, ..Profile::default_sem() }
    }
}

pub fn alphabet(rng: &mut Rng, letters_only: bool) -> Vec<u8> {
    let n = rng.range(2, 5);
    let mut a = vec![];
    while a.len() < n {
        let b = if letters_only {
            *rng.pick(&[b'a', b'b', b'c', b'A', b'B', b'C', b'z', b'Z'])
        } else {
            *rng.pick(&POOL)
        };
        if !a.contains(&b) {
            a.push(b);
        }
    }
    // Bias towards alphabets with both cases of a letter, so that
    // case-insensitive collisions are common.
    if rng.chance(1, 3) {
        let l = a[0];
        if l.is_ascii_alphabetic() {
            let o = l ^ 0x20;
            if !a.contains(&o) {
                a.push(o);
            }
        }
    }
    a
}

pub fn rand_string(rng: &mut Rng, alpha: &[u8], len: usize) -> Vec<u8> {
    (0..len).map(|_| *rng.pick(alpha)).collect()
}

/// A structured random pattern list; also returns the alphabet used.
pub fn patterns(rng: &mut Rng, prof: &Profile) -> (Vec<Vec<u8>>, Vec<u8>) {
    let alpha = alphabet(rng, prof.letters_only);
    let many = rng.below(100) < prof.many_pct;
    let n = if many {
        rng.range(30, 130)
    } else {
        rng.range(prof.min_pats, prof.max_pats)
    };
    let mut pats: Vec<Vec<u8>> = vec![];
    let minlen = if prof.allow_empty { 0 } else { 1 };
    for _ in 0..n {
        // lengths biased to short
        let len = if rng.chance(1, 8) {
            rng.range(minlen, prof.max_len + 4)
        } else {
            rng.range(minlen, prof.max_len)
        };
        pats.push(rand_string(rng, &alpha, len));
    }
    // closure step: derive patterns from existing ones
    let extra = if pats.is_empty() { 0 } else { rng.below(4) };
    for _ in 0..extra {
        let src = rng.pick(&pats).clone();
        let d = match rng.below(6) {
            0 => src[..rng.below(src.len() + 1)].to_vec(), // prefix
            1 => src[rng.below(src.len() + 1)..].to_vec(), // suffix
            2 => {
                // infix
                let a = rng.below(src.len() + 1);
                let b = rng.range(a, src.len());
                src[a..b].to_vec()
            }
            3 => src.clone(), // duplicate
            4 => src
                .iter()
                .map(|&b| {
                    if b.is_ascii_alphabetic() && rng.chance(1, 2) {
                        b ^ 0x20
                    } else {
                        b
                    }
                })
                .collect(), // case variant
            _ => {
                // extension
                let mut e = src.clone();
                e.push(*rng.pick(&alpha));
                e
            }
        };
        if d.is_empty() && !prof.allow_empty {
            continue;
        }
        pats.push(d);
    }
    if prof.allow_empty && rng.chance(1, 6) {
        pats.push(vec![]);
    }
    if rng.below(100) < prof.long_pct {
        let len = rng.range(200, 600);
        pats.push(rand_string(rng, &alpha, len));
    }
    if !prof.allow_empty {
        pats.retain(|p| !p.is_empty());
        if pats.is_empty() {
            let n = rng.range(1, 3);
            pats.push(rand_string(rng, &alpha, n));
        }
    }
    rng.shuffle(&mut pats);
    (pats, alpha)
}

/// A haystack related to the patterns: random text over the alphabet,
/// pattern concatenations, one-byte corruptions of patterns.
pub fn haystack(
    rng: &mut Rng,
    pats: &[Vec<u8>],
    alpha: &[u8],
    max_len: usize,
) -> Vec<u8> {
    let mut h = vec![];
    let target = match rng.below(10) {
        0 => 0,
        1 => rng.range(0, 2),
        _ => rng.range(0, max_len),
    };
    while h.len() < target {
        match rng.below(5) {
            0 | 1 => {
                let n = rng.range(1, 3);
                h.extend(rand_string(rng, alpha, n));
            }
            2 | 3 if !pats.is_empty() => {
                let p = rng.pick(pats);
                if p.len() <= 64 || rng.chance(1, 4) {
                    h.extend_from_slice(p);
                }
            }
            _ if !pats.is_empty() => {
                let mut p = rng.pick(pats).clone();
                if !p.is_empty() && p.len() <= 64 {
                    let i = rng.below(p.len());
                    p[i] = *rng.pick(alpha);
                    // sometimes drop the last byte instead
                    if rng.chance(1, 3) {
                        p.pop();
                    }
                    h.extend_from_slice(&p);
                }
            }
            _ => h.push(*rng.pick(alpha)),
        }
    }
    if h.len() > max_len && rng.chance(3, 4) {
        h.truncate(max_len);
    }
    h
}

/// A random valid span of a haystack of length `len`: often the full span,
/// sometimes empty, occasionally the "done" span start = end + 1.
pub fn span(rng: &mut Rng, len: usize) -> (usize, usize) {
    match rng.below(8) {
        0 | 1 | 2 => (0, len),
        3 => {
            let e = rng.range(0, len);
            (e, e)
        }
        4 if len > 0 => {
            let e = rng.range(0, len - 1);
            (e + 1, e)
        }
        _ => {
            let s = rng.range(0, len);
            let e = rng.range(s, len);
            (s, e)
        }
    }
}
