//! Workload generators: small-scope enumerators and seeded structured-random
//! pattern lists / haystacks / spans.

use crate::util::Rng;

/// All byte strings over `alpha` of length 0..=max_len, shortest first.
pub fn all_strings(alpha: &[u8], max_len: usize) -> Vec<Vec<u8>> {
    let mut out: Vec<Vec<u8>> = vec![vec![]];
    let mut prev: Vec<Vec<u8>> = vec![vec![]];
    for _ in 0..max_len {
        let mut next = vec![];
        for p in &prev {
            for &a in alpha {
                let mut q = p.clone();
                q.push(a);
                next.push(q);
            }
        }
        out.extend(next.iter().cloned());
        prev = next;
    }
    out
}

/// All *lists* (order and duplicates matter) of at most `max_pats` strings
/// from `strings`.
pub fn all_lists(strings: &[Vec<u8>], max_pats: usize) -> Vec<Vec<Vec<u8>>> {
    let mut out: Vec<Vec<Vec<u8>>> = vec![vec![]];
    let mut prev: Vec<Vec<Vec<u8>>> = vec![vec![]];
    for _ in 0..max_pats {
        let mut next = vec![];
        for l in &prev {
            for s in strings {
                let mut q = l.clone();
                q.push(s.clone());
                next.push(q);
            }
        }
        out.extend(next.iter().cloned());
        prev = next;
    }
    out
}

/// All spans (s, e) with 0 <= s <= e <= len, plus (e+1, e) for every e.
pub fn all_spans(len: usize, with_done: bool) -> Vec<(usize, usize)> {
    let mut v = vec![];
    for e in 0..=len {
        for s in 0..=e {
            v.push((s, e));
        }
        if with_done {
            v.push((e + 1, e));
        }
    }
    v
}

/// The pool from which random alphabets are drawn: letters in both cases,
/// the four bytes adjacent to the ASCII letter ranges, a digit, NUL, and
/// high bytes including two that differ by 0x20 without being letters.
pub const POOL: [u8; 23] = [
    b'a', b'b', b'c', b'A', b'B', b'z', b'Z', b'@', b'[', b'`', b'{', b'1',
    0x00, 0x80, 0xC1, 0xE1, 0xFF, b' ',
    // both sides of the 0x7F/0x80 divide and the neighbours of the extremes
    0x7F, b'~', 0x81, 0x01, 0xFE,
];

#[derive(Clone, Debug)]
pub struct Profile {
    pub allow_empty: bool,
    pub min_pats: usize,
    pub max_pats: usize,
    pub max_len: usize,
    /// probability (percent) of a "many patterns" list (30..=130 patterns)
    pub many_pct: usize,
    /// probability (percent) of including a long (200..=600 byte) pattern
    pub long_pct: usize,
    /// restrict the alphabet to ASCII letters (both cases)
    pub letters_only: bool,
}

impl Profile {
    pub fn default_sem() -> Profile {
        Profile {
            allow_empty: true,
            min_pats: 0,
            max_pats: 6,
            max_len: 5,
            many_pct: 3,
            long_pct: 2,
            letters_only: false,
        }
    }
    pub fn nonempty() -> Profile {
        Profile { allow_empty: false, min_pats: 1, ..Profile::default_sem() }
    }
}

pub fn alphabet(rng: &mut Rng, letters_only: bool) -> Vec<u8> {
    // One alphabet in ten: an edge of a letter range together with both of its
    // byte neighbours, in any order (what is learnt about a byte's neighbours
    // must not stand in for the byte itself - case folding, byte classes).
    if !letters_only && rng.chance(1, 10) {
        let mut a = rng.pick(&[[b'`', b'a', b'b'], [b'y', b'z', b'{'], [b'@', b'A', b'B'], [b'Y', b'Z', b'[']]).to_vec();
        rng.shuffle(&mut a);
        if rng.chance(1, 2) {
            let b = *rng.pick(&POOL);
            if !a.contains(&b) {
                a.push(b);
            }
        }
        return a;
    }
    let n = rng.range(2, 5);
    let mut a = vec![];
    while a.len() < n {
        let b = if letters_only {
            *rng.pick(&[b'a', b'b', b'c', b'A', b'B', b'C', b'z', b'Z'])
        } else if rng.chance(1, 6) {
            // any byte value at all: the pool names the values known to matter,
            // but no value may be special
            rng.below(256) as u8
        } else {
            *rng.pick(&POOL)
        };
        if !a.contains(&b) {
            a.push(b);
        }
    }
    // Bias towards alphabets with both cases of a letter, so that
    // case-insensitive collisions are common.
    if rng.chance(1, 3) {
        let l = a[0];
        if l.is_ascii_alphabetic() {
            let o = l ^ 0x20;
            if !a.contains(&o) {
                a.push(o);
            }
        }
    }
    a
}

pub fn rand_string(rng: &mut Rng, alpha: &[u8], len: usize) -> Vec<u8> {
    (0..len).map(|_| *rng.pick(alpha)).collect()
}

/// A structured random pattern list; also returns the alphabet used.
pub fn patterns(rng: &mut Rng, prof: &Profile) -> (Vec<Vec<u8>>, Vec<u8>) {
    let alpha = alphabet(rng, prof.letters_only);
    let many = rng.below(100) < prof.many_pct;
    let n = if many {
        rng.range(30, 130)
    } else {
        rng.range(prof.min_pats, prof.max_pats)
    };
    let mut pats: Vec<Vec<u8>> = vec![];
    let minlen = if prof.allow_empty { 0 } else { 1 };
    for _ in 0..n {
        // lengths biased to short
        let len = if rng.chance(1, 8) {
            rng.range(minlen, prof.max_len + 4)
        } else {
            rng.range(minlen, prof.max_len)
        };
        pats.push(rand_string(rng, &alpha, len));
    }
    // closure step: derive patterns from existing ones
    let extra = if pats.is_empty() { 0 } else { rng.below(4) };
    for _ in 0..extra {
        let src = rng.pick(&pats).clone();
        let d = match rng.below(6) {
            0 => src[..rng.below(src.len() + 1)].to_vec(), // prefix
            1 => src[rng.below(src.len() + 1)..].to_vec(), // suffix
            2 => {
                // infix
                let a = rng.below(src.len() + 1);
                let b = rng.range(a, src.len());
                src[a..b].to_vec()
            }
            3 => src.clone(), // duplicate
            4 => src
                .iter()
                .map(|&b| {
                    if b.is_ascii_alphabetic() && rng.chance(1, 2) {
                        b ^ 0x20
                    } else {
                        b
                    }
                })
                .collect(), // case variant
            _ => {
                // extension
                let mut e = src.clone();
                e.push(*rng.pick(&alpha));
                e
            }
        };
        if d.is_empty() && !prof.allow_empty {
            continue;
        }
        pats.push(d);
    }
    if prof.allow_empty && rng.chance(1, 6) {
        pats.push(vec![]);
    }
    if rng.below(100) < prof.long_pct {
        let len = rng.range(200, 600);
        pats.push(rand_string(rng, &alpha, len));
    }
    if !prof.allow_empty {
        pats.retain(|p| !p.is_empty());
        if pats.is_empty() {
            let n = rng.range(1, 3);
            pats.push(rand_string(rng, &alpha, n));
        }
    }
    rng.shuffle(&mut pats);
    (pats, alpha)
}

/// A haystack related to the patterns: random text over the alphabet,
/// pattern concatenations, one-byte corruptions of patterns.
pub fn haystack(
    rng: &mut Rng,
    pats: &[Vec<u8>],
    alpha: &[u8],
    max_len: usize,
) -> Vec<u8> {
    let mut h = vec![];
    let target = match rng.below(10) {
        0 => 0,
        1 => rng.range(0, 2),
        _ => rng.range(0, max_len),
    };
    while h.len() < target {
        match rng.below(5) {
            0 | 1 => {
                let n = rng.range(1, 3);
                h.extend(rand_string(rng, alpha, n));
            }
            2 | 3 if !pats.is_empty() => {
                let p = rng.pick(pats);
                if p.len() <= 64 || rng.chance(1, 4) {
                    h.extend_from_slice(p);
                }
            }
            _ if !pats.is_empty() => {
                let mut p = rng.pick(pats).clone();
                if !p.is_empty() && p.len() <= 64 {
                    let i = rng.below(p.len());
                    p[i] = *rng.pick(alpha);
                    // sometimes drop the last byte instead
                    if rng.chance(1, 3) {
                        p.pop();
                    }
                    h.extend_from_slice(&p);
                }
            }
            _ => h.push(*rng.pick(alpha)),
        }
    }
    if h.len() > max_len && rng.chance(3, 4) {
        h.truncate(max_len);
    }
    h
}

/// A random valid span of a haystack of length `len`: often the full span,
/// sometimes empty, occasionally the "done" span start = end + 1.
pub fn span(rng: &mut Rng, len: usize) -> (usize, usize) {
    match rng.below(8) {
        0 | 1 | 2 => (0, len),
        3 => {
            let e = rng.range(0, len);
            (e, e)
        }
        4 if len > 0 => {
            let e = rng.range(0, len - 1);
            (e + 1, e)
        }
        _ => {
            let s = rng.range(0, len);
            let e = rng.range(s, len);
            (s, e)
        }
    }
}

// ------------------------------------------------------------ vector-shaped

/// Haystack lengths around SIMD vector widths and loop boundaries.
pub fn vec_lengths(thorough: bool) -> Vec<usize> {
    let mut v: Vec<usize> = vec![];
    let ranges: &[(usize, usize)] = &[
        (0, 5),
        (13, 21),
        (29, 38),
        (45, 51),
        (61, 69),
        (93, 99),
        (125, 132),
        (253, 260),
    ];
    for &(a, b) in ranges {
        v.extend(a..=b);
    }
    if thorough {
        v.extend([511, 512, 513, 1023, 1024, 1025, 4095, 4096, 4097]);
    }
    v
}

/// A haystack of exactly `len` bytes built from a filler strategy with true
/// (and truncated / corrupted) pattern occurrences planted at offsets that
/// matter to vector code: the very start, just around multiples of 16/32 and
/// flush against the end.
pub fn vec_haystack(rng: &mut Rng, pats: &[Vec<u8>], len: usize) -> Vec<u8> {
    let used: Vec<bool> = {
        let mut u = vec![false; 256];
        for p in pats {
            for &b in p {
                u[b as usize] = true;
                // also treat the other ASCII case as used
                if b.is_ascii_alphabetic() {
                    u[(b ^ 0x20) as usize] = true;
                }
            }
        }
        u
    };
    let firsts: Vec<u8> = pats.iter().filter_map(|p| p.first().copied()).collect();
    let unused: Vec<u8> = (0..=255u8).filter(|&b| !used[b as usize]).collect();
    let strategy = rng.below(5);
    let mut h: Vec<u8> = Vec::with_capacity(len);
    for _ in 0..len {
        let b = match strategy {
            0 => {
                if unused.is_empty() {
                    0xFE
                } else {
                    unused[0]
                }
            }
            1 => {
                // nybble sharing: same low nybble as a pattern byte, other high nybble
                if firsts.is_empty() {
                    b'q'
                } else {
                    let f = *rng.pick(&firsts);
                    let cand = (f & 0x0F) | ((rng.below(16) as u8) << 4);
                    cand
                }
            }
            2 => {
                if firsts.is_empty() {
                    b'a'
                } else {
                    *rng.pick(&firsts)
                }
            }
            3 => {
                // mostly unused filler with a sprinkle of pattern bytes
                if rng.chance(1, 6) && !pats.is_empty() {
                    let p = rng.pick(pats);
                    if p.is_empty() { b'x' } else { *rng.pick(p) }
                } else if unused.is_empty() {
                    0xFE
                } else {
                    *rng.pick(&unused)
                }
            }
            _ => {
                if firsts.is_empty() {
                    b'z'
                } else {
                    let f = *rng.pick(&firsts);
                    (f & 0xF0) | (rng.below(16) as u8)
                }
            }
        };
        h.push(b);
    }
    if pats.is_empty() || len == 0 {
        return h;
    }
    let plant = rng.below(4); // how many occurrences
    for _ in 0..plant {
        let p = rng.pick(pats).clone();
        if p.is_empty() || p.len() > len {
            // plant a truncated copy flush against the end instead
            if !p.is_empty() {
                let k = len.min(p.len() - 1);
                let start = len - k;
                h[start..].copy_from_slice(&p[..k]);
            }
            continue;
        }
        let maxoff = len - p.len();
        let cands: [usize; 12] = [
            0,
            1,
            maxoff,
            maxoff.saturating_sub(1),
            15usize.min(maxoff),
            16usize.min(maxoff),
            17usize.min(maxoff),
            31usize.min(maxoff),
            32usize.min(maxoff),
            33usize.min(maxoff),
            rng.range(0, maxoff),
            rng.range(0, maxoff),
        ];
        let off = (*rng.pick(&cands)).min(maxoff);
        h[off..off + p.len()].copy_from_slice(&p);
        if rng.chance(1, 5) {
            // corrupt one byte of it
            let i = off + rng.below(p.len());
            h[i] = h[i].wrapping_add(1);
        }
    }
    if rng.chance(1, 4) {
        // truncated pattern flush against the end
        let p = rng.pick(pats);
        if p.len() >= 2 {
            let k = rng.range(1, (p.len() - 1).min(len));
            h[len - k..].copy_from_slice(&p[..k]);
        }
    }
    h
}

/// Spans for vector-shaped haystacks: full, tails that leave fewer bytes
/// than a vector, heads, and a random one.
pub fn vec_spans(rng: &mut Rng, len: usize) -> Vec<(usize, usize)> {
    let mut v = vec![(0, len)];
    if len > 0 {
        v.push((rng.range(0, len), len));
        v.push((0, rng.range(0, len)));
        let s = rng.range(0, len);
        v.push((s, rng.range(s, len)));
        if len > 17 {
            v.push((len - 17, len));
            v.push((1, len - 1));
        }
    }
    v
}

/// Pattern lists for the packed searchers: 1..=128 non-empty patterns, minimum
/// length 1..=4+, shared prefixes / low nybbles so that buckets and
/// fingerprints collide.
pub fn packed_patterns(rng: &mut Rng) -> Vec<Vec<u8>> {
    packed_patterns_with(rng, None, 128)
}

/// As `packed_patterns`, optionally forcing the minimum pattern length (which
/// selects the Teddy fingerprint length) and capping the number of patterns.
pub fn packed_patterns_with(rng: &mut Rng, force_min: Option<usize>, max_n: usize) -> Vec<Vec<u8>> {
    // Half of the time the number of patterns sits on a limit of the packed
    // implementations: 8 buckets (slim) / 16 buckets (fat), the fat/slim
    // default switch at 32, the heuristic limits 16 / 64 and the hard limit 128.
    let n = if rng.chance(1, 2) {
        *rng.pick(&[1usize, 2, 7, 8, 9, 15, 16, 17, 31, 32, 33, 48, 63, 64, 65, 100, 127, 128])
    } else {
        match rng.below(10) {
            0 => 1,
            1 | 2 | 3 => rng.range(2, 8),
            4 | 5 => rng.range(9, 17),
            6 => rng.range(17, 33),
            7 => rng.range(33, 64),
            8 => rng.range(65, 128),
            _ => rng.range(2, 5),
        }
    };
    let n = n.min(max_n).max(1);
    // Mostly short minimum lengths (they select the Teddy fingerprint length),
    // but also long ones: around 32/64/128 the Rabin-Karp rolling hash and
    // the verification routines cross word-size boundaries.
    let minlen = match force_min {
        Some(m) => m,
        None => {
            if rng.chance(1, 7) {
                *rng.pick(&[31usize, 32, 33, 63, 64, 65, 66, 70, 100, 127, 128, 129, 130, 200])
            } else {
                *rng.pick(&[1usize, 2, 3, 4, 4, 5, 7, 8, 9, 16, 17])
            }
        }
    };
    let n = if minlen > 20 { n.min(12) } else { n };
    let maxlen = minlen + rng.below(5);
    let alpha: Vec<u8> = match rng.below(4) {
        0 => b"ab".to_vec(),
        1 => b"abcdefgh".to_vec(),
        // bytes sharing low nybble 1: 'a' 'q' 'A' '1' 'Q' and high bytes
        2 => vec![b'a', b'q', b'A', b'1', b'Q', 0x81, 0xF1],
        _ => (0..rng.range(3, 20)).map(|_| rng.below(256) as u8).collect(),
    };
    let mut pats: Vec<Vec<u8>> = vec![];
    let mut guard = 0;
    while pats.len() < n && guard < 10 * n + 50 {
        guard += 1;
        let len = rng.range(minlen, maxlen);
        let p = if !pats.is_empty() && rng.chance(1, 3) {
            // share a prefix with an existing pattern
            let src = rng.pick(&pats).clone();
            let keep = rng.range(1, src.len());
            let mut q = src[..keep.min(len)].to_vec();
            while q.len() < len {
                q.push(*rng.pick(&alpha));
            }
            q
        } else {
            rand_string(rng, &alpha, len)
        };
        // duplicates are allowed but kept rare
        if pats.contains(&p) && !rng.chance(1, 10) {
            continue;
        }
        pats.push(p);
    }
    if pats.is_empty() {
        pats.push(rand_string(rng, &alpha, minlen));
    }
    if force_min.is_some() && !pats.iter().any(|p| p.len() == minlen) {
        pats[0].truncate(minlen);
    }
    pats
}

/// Lengths at which "long haystack" code paths could switch: just above a
/// byte-sized length, around 1 KiB / 4 KiB / 16 KiB and around 64 KiB.
pub fn long_length(rng: &mut Rng) -> usize {
    match rng.below(20) {
        0..=5 => rng.range(257, 300),
        6..=10 => rng.range(1000, 1100),
        11..=14 => rng.range(4090, 4200),
        15..=17 => rng.range(16380, 16400),
        _ => rng.range(65530, 65600),
    }
}

/// A haystack of about `target` bytes: pieces made by `haystack` (pattern
/// occurrences, near misses, noise) separated by stretches of a byte that is
/// in no pattern (so that prefilters skip far) or of alphabet noise.
pub fn long_haystack(rng: &mut Rng, pats: &[Vec<u8>], alpha: &[u8], target: usize) -> Vec<u8> {
    let mut h = Vec::with_capacity(target + 64);
    let foreign = (0u8..=255).rev().find(|b| !pats.iter().any(|p| p.contains(b)) && !alpha.contains(b));
    let dense = rng.chance(1, 3);
    while h.len() < target {
        let piece = haystack(rng, pats, alpha, 40);
        h.extend_from_slice(&piece);
        let gap = if dense { rng.range(0, 8) } else { rng.range(0, (target / 6).max(8)) };
        match (foreign, rng.below(3)) {
            (Some(f), 0 | 1) => h.extend(std::iter::repeat(f).take(gap)),
            _ => {
                for _ in 0..gap.min(64) {
                    h.push(*rng.pick(alpha));
                }
            }
        }
    }
    h.truncate(target);
    h
}
