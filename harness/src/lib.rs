//! Shared monitor code for the `acmon` and `purity` binaries.

pub mod c13;
pub mod cfg;
pub mod gen;
pub mod mem;
pub mod meta;
pub mod oracle;
pub mod packed;
pub mod report;
pub mod sem;
pub mod stream;
pub mod threads;
pub mod util;
pub mod walk;
pub mod work;
