//! Stream monitors over recorded I/O event logs:
//! C07 (stream search = in-memory search for every read schedule / buffer
//! capacity), C08 (stream replacement conserves bytes), C18 (every injected
//! read/write failure is surfaced and never corrupts what was produced).

use std::io::{self, ErrorKind, Read, Write};

use aho_corasick::{automaton::Automaton, verif, Input};

use crate::cfg::{mm, Cfg, Imp, S};
use crate::gen::{self, Profile};
use crate::oracle::{Kind, M};
use crate::report::{ms_json, pats_from_json, pats_json, pats_show, Ctx, Report, Tier};
use crate::sem::guard;
use crate::util::{hex, show, unhex, Fnv, Rng, J};

// ------------------------------------------------------------ instrumented I/O

#[derive(Clone, Debug)]
pub struct ReadEvent {
    pub offered: usize,
    pub returned: Result<usize, ErrorKind>,
}

/// A reader that follows a schedule of read sizes and logs every call.
/// Schedule entry 0 means "fill the whole buffer offered".
pub struct SchedReader<'a> {
    pub data: &'a [u8],
    pub pos: usize,
    pub schedule: &'a [usize],
    pub calls: usize,
    pub fail_at: Option<(usize, ErrorKind)>,
    /// a second call that fails (same kind), e.g. the one right after
    pub fail_at2: Option<usize>,
    pub log: Vec<ReadEvent>,
}

impl<'a> SchedReader<'a> {
    pub fn new(data: &'a [u8], schedule: &'a [usize]) -> SchedReader<'a> {
        SchedReader { data, pos: 0, schedule, calls: 0, fail_at: None, fail_at2: None, log: vec![] }
    }
    pub fn saw_eof(&self) -> bool {
        self.log.iter().any(|e| matches!(e.returned, Ok(0)) && e.offered > 0)
    }
}

impl<'a> Read for SchedReader<'a> {
    fn read(&mut self, buf: &mut [u8]) -> io::Result<usize> {
        let k = self.calls;
        self.calls += 1;
        if let Some((at, kind)) = self.fail_at {
            if at == k || self.fail_at2 == Some(k) {
                self.log.push(ReadEvent { offered: buf.len(), returned: Err(kind) });
                return Err(io::Error::new(kind, "injected read failure"));
            }
        }
        let want = if self.schedule.is_empty() { 0 } else { self.schedule[k % self.schedule.len()] };
        let remaining = self.data.len() - self.pos;
        let mut n = if want == 0 { buf.len() } else { want.min(buf.len()) };
        n = n.min(remaining);
        buf[..n].copy_from_slice(&self.data[self.pos..self.pos + n]);
        self.pos += n;
        self.log.push(ReadEvent { offered: buf.len(), returned: Ok(n) });
        Ok(n)
    }
}

/// A writer that logs every accepted byte; optionally accepts only part of
/// each write and fails at the k-th call.
pub struct LogWriter {
    pub out: Vec<u8>,
    pub calls: usize,
    pub partial: bool,
    pub fail_at: Option<(usize, ErrorKind)>,
    /// the k-th call accepts nothing (`Ok(0)` for a non-empty buffer)
    pub zero_at: Option<usize>,
    /// a sink of fixed size, like `&mut [u8]` or a full disk: accepts bytes up
    /// to this total, then `Ok(0)` for ever
    pub capacity: Option<usize>,
    /// how often a non-empty buffer was answered with `Ok(0)`
    pub refused: usize,
    pub flushes: usize,
}

impl LogWriter {
    pub fn new(partial: bool) -> LogWriter {
        LogWriter { out: vec![], calls: 0, partial, fail_at: None, zero_at: None, capacity: None, refused: 0, flushes: 0 }
    }
}

impl Write for LogWriter {
    fn write(&mut self, buf: &[u8]) -> io::Result<usize> {
        let k = self.calls;
        self.calls += 1;
        if let Some((at, kind)) = self.fail_at {
            if at == k {
                return Err(io::Error::new(kind, "injected write failure"));
            }
        }
        if self.zero_at == Some(k) {
            if !buf.is_empty() {
                self.refused += 1;
            }
            return Ok(0);
        }
        let mut n = if self.partial && buf.len() > 1 { (buf.len() + 1) / 2 } else { buf.len() };
        if let Some(cap) = self.capacity {
            n = n.min(cap - self.out.len().min(cap));
            if n == 0 && !buf.is_empty() {
                self.refused += 1;
            }
        }
        self.out.extend_from_slice(&buf[..n]);
        Ok(n)
    }
    /// A native vectored write, as sockets, files and pipes have one: takes the
    /// slices in order; a partial writer stops about half-way through the total,
    /// which may be anywhere inside any of the slices.
    fn write_vectored(&mut self, bufs: &[io::IoSlice<'_>]) -> io::Result<usize> {
        let k = self.calls;
        self.calls += 1;
        if let Some((at, kind)) = self.fail_at {
            if at == k {
                return Err(io::Error::new(kind, "injected write failure"));
            }
        }
        let total: usize = bufs.iter().map(|b| b.len()).sum();
        if self.zero_at == Some(k) {
            if total > 0 {
                self.refused += 1;
            }
            return Ok(0);
        }
        let mut take = if self.partial && total > 1 { (total + 1) / 2 } else { total };
        if let Some(cap) = self.capacity {
            take = take.min(cap - self.out.len().min(cap));
            if take == 0 && total > 0 {
                self.refused += 1;
            }
        }
        let n = take;
        for b in bufs {
            let m = take.min(b.len());
            self.out.extend_from_slice(&b[..m]);
            take -= m;
            if take == 0 {
                break;
            }
        }
        Ok(n)
    }
    fn flush(&mut self) -> io::Result<()> {
        self.flushes += 1;
        Ok(())
    }
}

// ------------------------------------------------------------ uniform stream API

fn stream_find(s: &S, rdr: &mut SchedReader<'_>) -> Result<Vec<io::Result<M>>, String> {
    // Collect items up to and including the first error (or None).
    fn drain<I: Iterator<Item = io::Result<aho_corasick::Match>>>(
        it: I,
        cap: usize,
    ) -> Vec<io::Result<M>> {
        // Items up to the end of the iteration; the caller of a stream search
        // may go on after an error (a transient fault), so errors do not end
        // the drain - at most 3 of them are kept, then it stops.
        let mut v = vec![];
        let mut errs = 0;
        for item in it.take(cap) {
            match item {
                Ok(m) => v.push(Ok(mm(m))),
                Err(e) => {
                    v.push(Err(e));
                    errs += 1;
                    if errs >= 3 {
                        break;
                    }
                }
            }
        }
        v
    }
    let cap = rdr.data.len() + 8;
    match s {
        // (every other stream goes through the infallible twin where the configuration supports streams)
        S::Top(a) if rdr.data.len() % 2 == 1 && stream_supported(a) => Ok(drain(a.stream_find_iter(rdr), cap)),
        S::Top(a) => a.try_stream_find_iter(rdr).map(|it| drain(it, cap)).map_err(|e| e.to_string()),
        // (low-level automata: every other stream through the blanket `impl Automaton for &A`)
        S::N(a) if by_ref(rdr) => (&a).try_stream_find_iter(rdr).map(|it| drain(it, cap)).map_err(|e| e.to_string()),
        S::C(a) if by_ref(rdr) => (&a).try_stream_find_iter(rdr).map(|it| drain(it, cap)).map_err(|e| e.to_string()),
        S::D(a) if by_ref(rdr) => (&a).try_stream_find_iter(rdr).map(|it| drain(it, cap)).map_err(|e| e.to_string()),
        S::N(a) => a.try_stream_find_iter(rdr).map(|it| drain(it, cap)).map_err(|e| e.to_string()),
        S::C(a) => a.try_stream_find_iter(rdr).map(|it| drain(it, cap)).map_err(|e| e.to_string()),
        S::D(a) => a.try_stream_find_iter(rdr).map(|it| drain(it, cap)).map_err(|e| e.to_string()),
    }
}

/// `Iterator::count()` called on the crate's stream iterator itself.
fn stream_count(s: &S, rdr: &mut SchedReader<'_>) -> Result<usize, String> {
    match s {
        S::Top(a) => a.try_stream_find_iter(rdr).map(|it| it.count()).map_err(|e| e.to_string()),
        S::N(a) => a.try_stream_find_iter(rdr).map(|it| it.count()).map_err(|e| e.to_string()),
        S::C(a) => a.try_stream_find_iter(rdr).map(|it| it.count()).map_err(|e| e.to_string()),
        S::D(a) => a.try_stream_find_iter(rdr).map(|it| it.count()).map_err(|e| e.to_string()),
    }
}

fn by_ref(rdr: &SchedReader<'_>) -> bool {
    rdr.data.len() % 2 == 0
}

fn stream_supported(a: &aho_corasick::AhoCorasick) -> bool {
    a.match_kind() == aho_corasick::MatchKind::Standard
        && a.min_pattern_len() > 0
        && a.start_kind() != aho_corasick::StartKind::Anchored
}

fn stream_replace(
    s: &S,
    rdr: &mut SchedReader<'_>,
    wtr: &mut LogWriter,
    repl: &[Vec<u8>],
) -> io::Result<()> {
    match s {
        S::Top(a) => a.try_stream_replace_all(rdr, wtr, repl),
        S::N(a) if by_ref(rdr) => (&a).try_stream_replace_all(rdr, wtr, repl),
        S::C(a) if by_ref(rdr) => (&a).try_stream_replace_all(rdr, wtr, repl),
        S::D(a) if by_ref(rdr) => (&a).try_stream_replace_all(rdr, wtr, repl),
        S::N(a) => a.try_stream_replace_all(rdr, wtr, repl),
        S::C(a) => a.try_stream_replace_all(rdr, wtr, repl),
        S::D(a) => a.try_stream_replace_all(rdr, wtr, repl),
    }
}

/// Closure variant: the closure logs (match, bytes) and writes
/// "[" + replacement + "]" so that closure output is distinguishable.
fn stream_replace_with(
    s: &S,
    rdr: &mut SchedReader<'_>,
    wtr: &mut LogWriter,
    repl: &[Vec<u8>],
    calls: &mut Vec<(M, Vec<u8>)>,
) -> io::Result<()> {
    let f = |m: &aho_corasick::Match, bytes: &[u8], w: &mut &mut LogWriter| -> io::Result<()> {
        calls.push((mm(*m), bytes.to_vec()));
        w.write_all(b"[")?;
        w.write_all(&repl[m.pattern().as_usize()])?;
        w.write_all(b"]")
    };
    match s {
        S::Top(a) => a.try_stream_replace_all_with(rdr, wtr, f),
        S::N(a) if by_ref(rdr) => (&a).try_stream_replace_all_with(rdr, wtr, f),
        S::C(a) if by_ref(rdr) => (&a).try_stream_replace_all_with(rdr, wtr, f),
        S::D(a) if by_ref(rdr) => (&a).try_stream_replace_all_with(rdr, wtr, f),
        S::N(a) => a.try_stream_replace_all_with(rdr, wtr, f),
        S::C(a) => a.try_stream_replace_all_with(rdr, wtr, f),
        S::D(a) => a.try_stream_replace_all_with(rdr, wtr, f),
    }
}

fn mem_iter(s: &S, data: &[u8]) -> Result<Vec<M>, String> {
    s.try_find_iter(Input::new(data)).map_err(|e| e.to_string())
}

fn splice(data: &[u8], ms: &[M], repl: &[Vec<u8>], bracket: bool) -> Vec<u8> {
    let mut out = vec![];
    let mut last = 0;
    for &(p, s, e) in ms {
        out.extend_from_slice(&data[last..s]);
        if bracket {
            out.push(b'[');
        }
        out.extend_from_slice(&repl[p]);
        if bracket {
            out.push(b']');
        }
        last = e;
    }
    out.extend_from_slice(&data[last..]);
    out
}

// ------------------------------------------------------------ cases

#[derive(Clone, Debug)]
pub struct StreamCase {
    pub pats: Vec<Vec<u8>>,
    pub cfg: Cfg,
    pub data: Vec<u8>,
    pub schedule: Vec<usize>,
    /// None = the crate's default capacity (no hook)
    pub spare: Option<usize>,
    pub repl: Vec<Vec<u8>>,
    pub partial_writes: bool,
}

impl StreamCase {
    pub fn to_json(&self) -> J {
        J::obj()
            .with("patterns", pats_json(&self.pats))
            .with("patterns_show", if self.pats.len() <= 30 { pats_show(&self.pats) } else { J::s("(long)") })
            .with("cfg", self.cfg.to_json())
            .with("data", J::Str(hex(&self.data)))
            .with(
                "data_show",
                J::Str(if self.data.len() <= 200 { show(&self.data) } else { format!("({} bytes)", self.data.len()) }),
            )
            .with("schedule", J::Arr(self.schedule.iter().map(|&x| J::i(x)).collect()))
            .with("spare", match self.spare { None => J::Null, Some(s) => J::i(s) })
            .with("replacements", pats_json(&self.repl))
            .with("partial_writes", J::Bool(self.partial_writes))
    }
    pub fn from_json(j: &J) -> Result<StreamCase, String> {
        Ok(StreamCase {
            pats: pats_from_json(j.get("patterns").ok_or("patterns")?)?,
            cfg: Cfg::from_json(j.get("cfg").ok_or("cfg")?)?,
            data: unhex(j.get("data").and_then(|v| v.as_str()).ok_or("data")?)?,
            schedule: j
                .get("schedule")
                .and_then(|v| v.as_arr())
                .ok_or("schedule")?
                .iter()
                .map(|x| x.as_usize().unwrap_or(1))
                .collect(),
            spare: j.get("spare").and_then(|v| v.as_usize()),
            repl: pats_from_json(j.get("replacements").ok_or("replacements")?)?,
            partial_writes: j.get("partial_writes").and_then(|v| v.as_bool()).unwrap_or(false),
        })
    }
    fn hash(&self) -> u64 {
        let mut h = Fnv::new();
        for p in &self.pats {
            h.bytes(p);
        }
        h.str(&self.cfg.label()).bytes(&self.data);
        for &s in &self.schedule {
            h.u64(s as u64);
        }
        h.u64(self.spare.map_or(u64::MAX, |s| s as u64));
        h.get()
    }
}

fn gen_schedule(rng: &mut Rng, maxpat: usize) -> Vec<usize> {
    match rng.below(8) {
        0 => vec![1],
        1 => vec![0],                         // always fill the whole free buffer
        2 => vec![rng.range(1, 3)],
        3 => vec![maxpat.max(1)],             // reads exactly one pattern long
        4 => vec![1, 0],                      // alternate single byte / fill
        5 => (0..rng.range(2, 6)).map(|_| rng.range(1, maxpat + 2)).collect(),
        6 => (0..rng.range(2, 8)).map(|_| *rng.pick(&[1usize, 2, 3, 5, 8, 13, 0, 1000])).collect(),
        _ => (0..rng.range(1, 12)).map(|_| rng.range(1, 9)).collect(),
    }
}

/// Longest-pattern lengths around the values that matter to the buffer
/// capacity computation (8 * len vs. the default 64 KiB, powers of two).
pub const BOUNDARY_PATTERN_LENS: [usize; 10] = [8191, 8192, 8193, 16384, 32768, 65535, 65536, 65537, 131072, 100_000];

/// A case with the crate's default buffer capacity whose longest pattern has
/// exactly `len` bytes; the stream is longer than the pattern, contains it
/// once and also contains short patterns before and after it.
fn boundary_case(rng: &mut Rng, len: usize) -> StreamCase {
    let alpha = b"abcd";
    let mut long = gen::rand_string(rng, alpha, len);
    long[len / 2] = b'#'; // make it unique
    let pats = vec![b"ab#".to_vec(), long.clone(), b"cd".to_vec(), b"dddd#".to_vec()];
    let head = rng.range(10, 3000);
    let mut data = gen::rand_string(rng, alpha, head);
    data.extend_from_slice(&long);
    let tail = rng.range(len / 2, len + 20_000);
    data.extend(gen::rand_string(rng, alpha, tail));
    data.extend_from_slice(b"xxab#xxcdxx");
    let cfg = Cfg {
        imp: *rng.pick(&[Imp::TopNnfa, Imp::LowNnfa, Imp::TopCnfa, Imp::LowCnfa]),
        kind: Kind::Standard,
        sk: crate::cfg::SK::Unanchored,
        ci: false,
        pre: rng.chance(1, 2),
        dense_depth: None,
        byte_classes: true,
    };
    let schedule = vec![*rng.pick(&[0usize, 4096, 65_536, 1000, 100_000])];
    let repl: Vec<Vec<u8>> = vec![b"<1>".to_vec(), b"<LONG>".to_vec(), vec![], b"<4>".to_vec()];
    StreamCase { pats, cfg, data, schedule, spare: None, repl, partial_writes: rng.chance(1, 3) }
}

/// A case aimed at the interplay of prefilters and buffer refills: a pattern
/// list that selects a prefilter (standard semantics: memmem, start bytes,
/// rare bytes), patterns of different lengths, a mid-sized buffer (so that
/// dozens to hundreds of unsearched bytes are buffered at a time), long runs
/// of bytes that are no candidate for any prefilter, and medium-sized reads
/// that cut occurrences at every possible position.
fn prefilter_stream_case(rng: &mut Rng) -> StreamCase {
    let (pats, ci) = loop {
        let (p, ci) = crate::meta::prefilter_patterns(rng);
        if p.iter().all(|q| !q.is_empty()) && p.iter().map(|q| q.len()).sum::<usize>() < 400 {
            break (p, ci);
        }
    };
    let mut used = [false; 256];
    for p in &pats {
        for &b in p {
            used[b as usize] = true;
            if b.is_ascii_alphabetic() {
                used[(b ^ 0x20) as usize] = true;
            }
        }
    }
    let filler = (b'0'..=b'9').chain(0x80..=0xFEu8).find(|&b| !used[b as usize]).unwrap_or(b'0');
    let mut data: Vec<u8> = vec![];
    let segments = rng.range(2, 8);
    for _ in 0..segments {
        let run = *rng.pick(&[0usize, 3, 17, 63, 64, 65, 100, 130, 300, 700]);
        data.extend(std::iter::repeat(filler).take(run));
        let p = rng.pick(&pats).clone();
        data.extend_from_slice(&p);
        if rng.chance(1, 3) {
            // a near miss right after it
            let mut q = rng.pick(&pats).clone();
            let i = rng.below(q.len());
            q[i] = filler;
            data.extend_from_slice(&q);
        }
    }
    data.extend(std::iter::repeat(filler).take(rng.range(0, 80)));
    let cfg = Cfg {
        imp: *rng.pick(&Imp::ALL),
        kind: Kind::Standard,
        sk: crate::cfg::SK::Unanchored,
        ci,
        pre: true,
        dense_depth: None,
        byte_classes: true,
    };
    let schedule: Vec<usize> = (0..rng.range(1, 6)).map(|_| *rng.pick(&[1usize, 7, 50, 64, 65, 100, 257, 304, 700, 0])).collect();
    let spare = *rng.pick(&[Some(64usize), Some(100), Some(257), Some(1000), Some(4096), None]);
    let repl: Vec<Vec<u8>> = (0..pats.len()).map(|i| format!("<{}>", i).into_bytes()).collect();
    StreamCase { pats, cfg, data, schedule, spare, repl, partial_writes: rng.chance(1, 4) }
}

fn gen_case(rng: &mut Rng, tier: Tier, force_default_capacity: bool, for_faults: bool) -> StreamCase {
    let mut prof = Profile::nonempty();
    prof.max_len = 8;
    prof.many_pct = if for_faults { 0 } else { 2 };
    prof.long_pct = 0;
    let (mut pats, alpha) = gen::patterns(rng, &prof);
    // one case in forty: a searcher built from NO patterns (a legal collection;
    // the stream is then passed through unchanged, and faults still surface)
    if rng.chance(1, 40) {
        pats.clear();
    }
    if !pats.is_empty() && !for_faults && rng.chance(1, 60) {
        // one very long pattern so that 8*min exceeds the default capacity
        let l = rng.range(8200, 9200);
        pats.push(gen::rand_string(rng, &alpha, l));
    }
    let imp = *rng.pick(&Imp::ALL);
    let cfg = Cfg {
        imp,
        kind: Kind::Standard,
        sk: *rng.pick(&[crate::cfg::SK::Unanchored, crate::cfg::SK::Both]),
        ci: rng.chance(1, 6),
        pre: rng.chance(1, 2),
        dense_depth: *rng.pick(&[None, Some(0), Some(2)]),
        byte_classes: rng.chance(3, 4),
    };
    let maxpat = pats.iter().map(|p| p.len()).max().unwrap_or(1);
    let (data, spare) = if force_default_capacity {
        // exercise the un-hooked path: default 64 KiB buffer, stream long
        // enough for several rolls
        let target = tier.pick(70_000, 200_000, 400_000);
        let mut d = Vec::with_capacity(target + 64);
        while d.len() < target {
            let chunk = gen::haystack(rng, &pats, &alpha, 200);
            d.extend_from_slice(&chunk);
            d.push(*rng.pick(&alpha));
        }
        (d, None)
    } else {
        let maxlen = if maxpat > 1000 { 3 * maxpat } else { rng.range(0, 60) + 4 * maxpat.min(40) };
        let d = if maxpat > 1000 {
            let n0 = rng.range(0, 50);
            let mut d = gen::rand_string(rng, &alpha, n0);
            d.extend_from_slice(pats.iter().max_by_key(|p| p.len()).unwrap());
            d.extend(gen::haystack(rng, &pats, &alpha, 300));
            d
        } else {
            gen::haystack(rng, &pats, &alpha, maxlen)
        };
        (d, Some(*rng.pick(&[1usize, 1, 2, 3, 5, 8, 64])))
    };
    let schedule = if force_default_capacity {
        vec![*rng.pick(&[0usize, 4096, 65_536, 1000, 7])]
    } else {
        gen_schedule(rng, maxpat)
    };
    let repl: Vec<Vec<u8>> = (0..pats.len())
        .map(|i| match rng.below(4) {
            0 => vec![],
            1 => format!("<{}>", i).into_bytes(),
            2 => pats[i].iter().rev().copied().collect(),
            _ => {
                let n = rng.below(2 * pats[i].len().min(12) + 1);
                gen::rand_string(rng, b"XYZ", n)
            }
        })
        .collect();
    // Now and then one replacement is huge (around 64 KiB, the size of the
    // crate's internal buffers; anything that batches output has its limits
    // there), in a short stream so that the output stays a few megabytes.
    let mut repl = repl;
    if !for_faults && !force_default_capacity && data.len() <= 400 && !pats.is_empty() && rng.chance(1, 25) {
        let i = rng.below(pats.len());
        let n = *rng.pick(&[65_535usize, 65_536, 65_537, 70_001, 131_073]);
        repl[i] = (0..n).map(|k| b'A' + (k % 23) as u8).collect();
    }
    StreamCase { pats, cfg, data, schedule, spare, repl, partial_writes: rng.chance(1, 3) }
}

fn build(rep: &mut Report, c: &StreamCase) -> Option<S> {
    match guard(|| c.cfg.build(&c.pats)) {
        Ok(Ok(s)) => Some(s),
        Ok(Err(e)) => {
            rep.violation("build:error", format!("build failed: {}", e), c.to_json());
            None
        }
        Err(p) => {
            rep.violation("build:panic", format!("build panicked: {}", p), c.to_json());
            None
        }
    }
}

fn with_spare<T>(spare: Option<usize>, f: impl FnOnce() -> T) -> T {
    verif::set_stream_buffer_spare(spare);
    verif::reset_counters();
    let r = f();
    verif::set_stream_buffer_spare(None);
    r
}

// ------------------------------------------------------------ C07

pub fn c07_check(rep: &mut Report, c: &StreamCase, s: &S) {
    let expected = match mem_iter(s, &c.data) {
        Ok(e) => e,
        Err(e) => {
            rep.violation("mem_iter:failure", e, c.to_json());
            return;
        }
    };
    let mut rdr = SchedReader::new(&c.data, &c.schedule);
    let got = with_spare(c.spare, || guard(|| stream_find(s, &mut rdr)));
    let ctr = verif::counters();
    rep.eval();
    rep.tally_n("rolls_observed", ctr.rolls);
    rep.tally_n("fills_observed", ctr.fills);
    rep.tally_n("read_calls_logged", rdr.log.len() as u64);
    rep.tally(match c.spare {
        None => "cases_default_capacity",
        Some(_) => "cases_hooked_capacity",
    });
    if ctr.rolls > 0 {
        rep.tally("cases_with_roll");
        if !expected.is_empty() {
            rep.nontrivial(c.hash());
        }
    }
    let sig_base = format!("stream_find:{}", if c.spare.is_some() { "hooked" } else { "default" });
    match got {
        Err(p) => rep.violation(&format!("{}:panic", sig_base), format!("panic: {}", p), c.to_json()),
        Ok(Err(e)) => rep.violation(&format!("{}:rejected", sig_base), format!("stream search rejected: {}", e), c.to_json()),
        Ok(Ok(items)) => {
            let mut ms = vec![];
            let mut err = None;
            for it in items {
                match it {
                    Ok(m) => ms.push(m),
                    Err(e) => err = Some(e.to_string()),
                }
            }
            if let Some(e) = err {
                rep.violation(&format!("{}:io_error_without_fault", sig_base), format!("io error although the reader never failed: {}", e), c.to_json());
            } else if ms != expected {
                let field = if ms.len() < expected.len() && expected.starts_with(&ms) {
                    "missing_tail"
                } else if ms.len() != expected.len() {
                    "count"
                } else {
                    "offsets"
                };
                rep.violation(
                    &format!("{}:{}", sig_base, field),
                    format!(
                        "stream search yielded {} matches, in-memory find_iter {}; first difference at index {}",
                        ms.len(),
                        expected.len(),
                        ms.iter().zip(expected.iter()).position(|(a, b)| a != b).unwrap_or(ms.len().min(expected.len()))
                    ),
                    c.to_json()
                        .with("observed", ms_json(&ms[..ms.len().min(50)]))
                        .with("expected", ms_json(&expected[..expected.len().min(50)])),
                );
            } else if c.data.len() % 4 == 1 && {
                // every fourth stream: the consuming `count()` of the iterator
                // must agree with the sequence `next()` yields
                let mut r2 = SchedReader::new(&c.data, &c.schedule);
                let n = with_spare(c.spare, || guard(|| stream_count(s, &mut r2)));
                rep.eval();
                rep.tally("stream_count_calls");
                !matches!(n, Ok(Ok(k)) if k == expected.len())
            } {
                rep.violation(
                    &format!("{}:count_method", sig_base),
                    format!("count() on the stream iterator does not equal the number of matches next() yields ({})", expected.len()),
                    c.to_json(),
                );
            } else if !rdr.saw_eof() {
                rep.violation(
                    &format!("{}:ended_before_eof", sig_base),
                    "iterator ended although the reader never reported end of stream".to_string(),
                    c.to_json(),
                );
            } else if rep.want_sample() && ctr.rolls > 1 && ms.len() > 1 && c.data.len() < 100 {
                rep.sample(
                    J::obj()
                        .with("patterns", pats_show(&c.pats))
                        .with("cfg", J::s(&c.cfg.label()))
                        .with("stream", J::Str(show(&c.data)))
                        .with("read_schedule", J::Arr(c.schedule.iter().map(|&x| J::i(x)).collect()))
                        .with("buffer_spare", c.spare.map_or(J::Null, J::i))
                        .with("rolls", J::u(ctr.rolls))
                        .with(
                            "read_log",
                            J::Arr(rdr.log.iter().take(12).map(|e| J::Arr(vec![J::i(e.offered), J::i(e.returned.clone().unwrap_or(0))])).collect()),
                        )
                        .with("matches_observed", ms_json(&ms)),
                );
            }
        }
    }
}

// ------------------------------------------------------------ C08

pub fn c08_check(rep: &mut Report, c: &StreamCase, s: &S) {
    let ms = match mem_iter(s, &c.data) {
        Ok(e) => e,
        Err(e) => {
            rep.violation("mem_iter:failure", e, c.to_json());
            return;
        }
    };
    let expected_plain = splice(&c.data, &ms, &c.repl, false);
    let expected_br = splice(&c.data, &ms, &c.repl, true);
    // the in-memory replace_all_bytes must agree with the splice too
    let mem = guard(|| match s {
        S::Top(a) => a.try_replace_all_bytes(&c.data, &c.repl).map_err(|e| e.to_string()),
        S::N(a) => a.try_replace_all_bytes(&c.data, &c.repl).map_err(|e| e.to_string()),
        S::C(a) => a.try_replace_all_bytes(&c.data, &c.repl).map_err(|e| e.to_string()),
        S::D(a) => a.try_replace_all_bytes(&c.data, &c.repl).map_err(|e| e.to_string()),
    });
    if let Ok(Ok(m)) = &mem {
        if *m != expected_plain {
            rep.violation("replace_all_bytes:differs_from_splice", "in-memory replace_all_bytes differs from find_iter + splice".into(), c.to_json());
        }
    }
    let sigb = format!("stream_replace:{}", if c.spare.is_some() { "hooked" } else { "default" });
    // --- table variant
    {
        let mut rdr = SchedReader::new(&c.data, &c.schedule);
        let mut wtr = LogWriter::new(c.partial_writes);
        let r = with_spare(c.spare, || guard(|| stream_replace(s, &mut rdr, &mut wtr, &c.repl)));
        let ctr = verif::counters();
        rep.eval();
        rep.tally_n("rolls_observed", ctr.rolls);
        rep.tally_n("write_calls_logged", wtr.calls as u64);
        rep.tally_n("bytes_written_logged", wtr.out.len() as u64);
        if ctr.rolls > 0 {
            rep.tally("cases_with_roll");
            if !ms.is_empty() {
                rep.nontrivial(c.hash());
            }
        }
        if c.partial_writes {
            rep.tally("cases_partial_writes");
        }
        match r {
            Err(p) => rep.violation(&format!("{}:panic", sigb), format!("panic: {}", p), c.to_json()),
            Ok(Err(e)) => rep.violation(&format!("{}:error_without_fault", sigb), format!("error although reader/writer never failed: {}", e), c.to_json()),
            Ok(Ok(())) => {
                if wtr.out != expected_plain {
                    let at = wtr.out.iter().zip(expected_plain.iter()).position(|(a, b)| a != b).unwrap_or(wtr.out.len().min(expected_plain.len()));
                    rep.violation(
                        &format!("{}:output", sigb),
                        format!(
                            "stream replacement wrote {} bytes, in-memory result has {}; first difference at output offset {}",
                            wtr.out.len(), expected_plain.len(), at
                        ),
                        c.to_json()
                            .with("observed", J::Str(hex(&wtr.out[..wtr.out.len().min(400)])))
                            .with("expected", J::Str(hex(&expected_plain[..expected_plain.len().min(400)]))),
                    );
                } else if rep.want_sample() && ctr.rolls > 1 && ms.len() > 1 && c.data.len() < 80 {
                    rep.sample(
                        J::obj()
                            .with("patterns", pats_show(&c.pats))
                            .with("replacements", pats_show(&c.repl))
                            .with("cfg", J::s(&c.cfg.label()))
                            .with("stream", J::Str(show(&c.data)))
                            .with("read_schedule", J::Arr(c.schedule.iter().map(|&x| J::i(x)).collect()))
                            .with("buffer_spare", c.spare.map_or(J::Null, J::i))
                            .with("rolls", J::u(ctr.rolls))
                            .with("write_calls", J::i(wtr.calls))
                            .with("output_observed", J::Str(show(&wtr.out))),
                    );
                }
            }
        }
    }
    // --- closure variant
    {
        let mut rdr = SchedReader::new(&c.data, &c.schedule);
        let mut wtr = LogWriter::new(c.partial_writes);
        let mut calls: Vec<(M, Vec<u8>)> = vec![];
        let r = with_spare(c.spare, || {
            guard(|| stream_replace_with(s, &mut rdr, &mut wtr, &c.repl, &mut calls))
        });
        rep.eval();
        rep.tally_n("closure_calls_logged", calls.len() as u64);
        let sigc = format!("{}_with", sigb);
        match r {
            Err(p) => rep.violation(&format!("{}:panic", sigc), format!("panic: {}", p), c.to_json()),
            Ok(Err(e)) => rep.violation(&format!("{}:error_without_fault", sigc), format!("error although reader/writer never failed: {}", e), c.to_json()),
            Ok(Ok(())) => {
                let got_ms: Vec<M> = calls.iter().map(|c| c.0).collect();
                if got_ms != ms {
                    rep.violation(
                        &format!("{}:matches", sigc),
                        format!("closure was called with {} matches, find_iter yields {}", got_ms.len(), ms.len()),
                        c.to_json().with("observed", ms_json(&got_ms[..got_ms.len().min(50)])).with("expected", ms_json(&ms[..ms.len().min(50)])),
                    );
                } else if let Some((m, b)) = calls.iter().find(|(m, b)| &c.data[m.1..m.2] != &b[..]) {
                    rep.violation(
                        &format!("{}:matched_bytes", sigc),
                        format!("closure got bytes {:?} for match {:?}, the stream has {:?} there", show(b), m, show(&c.data[m.1..m.2])),
                        c.to_json(),
                    );
                } else if wtr.out != expected_br {
                    rep.violation(
                        &format!("{}:output", sigc),
                        format!("closure variant wrote {} bytes, expected {}", wtr.out.len(), expected_br.len()),
                        c.to_json(),
                    );
                }
            }
        }
    }
}

// ------------------------------------------------------------ C18

/// Every way an I/O layer commonly fails (the crate must not care which).
const KINDS: [ErrorKind; 16] = [
    ErrorKind::Other,
    ErrorKind::Interrupted,
    ErrorKind::UnexpectedEof,
    ErrorKind::WouldBlock,
    ErrorKind::BrokenPipe,
    ErrorKind::ConnectionReset,
    ErrorKind::ConnectionAborted,
    ErrorKind::TimedOut,
    ErrorKind::WriteZero,
    ErrorKind::InvalidData,
    ErrorKind::InvalidInput,
    ErrorKind::PermissionDenied,
    ErrorKind::NotFound,
    ErrorKind::AlreadyExists,
    ErrorKind::OutOfMemory,
    ErrorKind::Unsupported,
];

pub fn c18_check(rep: &mut Report, c: &StreamCase, s: &S, rng: &mut Rng) {
    // fault-free reference run (find)
    let mut r0 = SchedReader::new(&c.data, &c.schedule);
    let base = with_spare(c.spare, || guard(|| stream_find(s, &mut r0)));
    let base_ms: Vec<M> = match base {
        Ok(Ok(items)) if items.iter().all(|i| i.is_ok()) => items.into_iter().map(|i| i.unwrap()).collect(),
        other => {
            rep.violation("fault_free:failure", format!("fault-free stream search failed: {:?}", other.map(|r| r.map(|v| v.len()))), c.to_json());
            return;
        }
    };
    let rolls0 = verif::counters().rolls;
    let nreads = r0.calls;
    // fault-free reference run (replace)
    let mut r1 = SchedReader::new(&c.data, &c.schedule);
    let mut w1 = LogWriter::new(c.partial_writes);
    let rr = with_spare(c.spare, || guard(|| stream_replace(s, &mut r1, &mut w1, &c.repl)));
    if !matches!(rr, Ok(Ok(()))) {
        rep.violation("fault_free:failure", "fault-free stream replacement failed".into(), c.to_json());
        return;
    }
    let base_out = w1.out.clone();
    let (nreads_r, nwrites) = (r1.calls, w1.calls);
    rep.tally_n("fault_free_read_calls", nreads as u64);
    rep.tally_n("fault_free_write_calls", nwrites as u64);
    if rolls0 > 0 {
        rep.tally("cases_with_roll");
    }
    let h = c.hash();
    // ---- (a) read fault at every position k, stream_find_iter
    for k in 0..nreads {
        let kind = *rng.pick(&KINDS);
        let mut rd = SchedReader::new(&c.data, &c.schedule);
        rd.fail_at = Some((k, kind));
        // every third position: the very next read call fails as well (two
        // transient faults in a row, e.g. a source answering WouldBlock twice)
        if k % 3 == 1 {
            rd.fail_at2 = Some(k + 1);
            rep.tally("consecutive_read_faults_injected");
        }
        let r = with_spare(c.spare, || guard(|| stream_find(s, &mut rd)));
        rep.eval();
        rep.tally("read_faults_injected_find");
        rep.nontrivial(h ^ Fnv::new().u64(k as u64).u64(1).get());
        let vio = |rep: &mut Report, f: &str, d: String| {
            rep.violation(
                &format!("find:read_fault:{}", f),
                d,
                c.to_json().with("fault", J::obj().with("op", J::s("read")).with("k", J::i(k)).with("kind", J::s(&format!("{:?}", kind)))),
            )
        };
        match r {
            Err(p) => vio(rep, "panic", format!("panic with read fault at call {}: {}", k, p)),
            Ok(Err(e)) => vio(rep, "rejected", format!("construction failed: {}", e)),
            Ok(Ok(items)) => {
                let n_ok = items.iter().take_while(|i| i.is_ok()).count();
                let ms: Vec<M> = items.iter().take(n_ok).map(|i| *i.as_ref().unwrap()).collect();
                let surfaced = items.get(n_ok).map_or(false, |i| i.is_err());
                if !surfaced {
                    // iterator returned None: legitimate only if the reader reported EOF
                    if !rd.saw_eof() {
                        vio(rep, "error_swallowed", format!("read call {} failed with {:?} but the iterator ended without yielding the error and the reader never reported end of stream", k, kind));
                        continue;
                    }
                }
                if !base_ms.starts_with(&ms) {
                    vio(rep, "not_a_prefix", format!("matches before the error {:?} are not a prefix of the fault-free sequence {:?}", ms, &base_ms[..base_ms.len().min(ms.len() + 2)]));
                }
                if surfaced && rolls0 > 0 {
                    rep.tally("read_faults_surfaced_in_rolling_cases");
                }
                // Continuation after the (one-off) fault: whatever the iterator
                // yields afterwards, all its matches together must still be a
                // prefix of the fault-free sequence (an iterator that keeps
                // returning the error yields no further matches, which is
                // fine), and if it ends, it may only end after the reader
                // reported end of stream - then nothing may be missing.
                if surfaced {
                    let all_ok: Vec<M> = items.iter().filter_map(|i| i.as_ref().ok().copied()).collect();
                    let nerr = items.iter().filter(|i| i.is_err()).count();
                    if all_ok.len() > ms.len() {
                        rep.tally("iterations_resumed_after_fault");
                    }
                    if !base_ms.starts_with(&all_ok) {
                        vio(rep, "wrong_matches_after_resuming", format!(
                            "after the read fault at call {} the iterator went on and yielded {:?} in total; the fault-free sequence is {:?}",
                            k, &all_ok[..all_ok.len().min(12)], &base_ms[..base_ms.len().min(12)]));
                    } else if nerr < 3 && items.len() < c.data.len() + 8 {
                        // the iteration ended with None
                        if !rd.saw_eof() {
                            vio(rep, "ended_before_eof_after_fault", format!("after the read fault at call {} the iterator ended although the reader never reported end of stream", k));
                        } else if all_ok != base_ms {
                            vio(rep, "matches_lost_after_resuming", format!(
                                "after the read fault at call {} the iterator resumed and finished with {} matches, the fault-free run has {}",
                                k, all_ok.len(), base_ms.len()));
                        }
                    }
                }
            }
        }
    }
    // ---- (b) read fault at every position, stream replacement
    for k in 0..nreads_r {
        let kind = *rng.pick(&KINDS);
        let mut rd = SchedReader::new(&c.data, &c.schedule);
        rd.fail_at = Some((k, kind));
        let mut w = LogWriter::new(c.partial_writes);
        let r = with_spare(c.spare, || guard(|| stream_replace(s, &mut rd, &mut w, &c.repl)));
        rep.eval();
        rep.tally("read_faults_injected_replace");
        rep.nontrivial(h ^ Fnv::new().u64(k as u64).u64(2).get());
        let vio = |rep: &mut Report, f: &str, d: String| {
            rep.violation(
                &format!("replace:read_fault:{}", f),
                d,
                c.to_json().with("fault", J::obj().with("op", J::s("read")).with("k", J::i(k)).with("kind", J::s(&format!("{:?}", kind)))),
            )
        };
        match r {
            Err(p) => vio(rep, "panic", format!("panic with read fault at call {}: {}", k, p)),
            Ok(Ok(())) => vio(rep, "error_swallowed", format!("read call {} failed with {:?} but stream replacement returned Ok", k, kind)),
            Ok(Err(_)) => {
                if !base_out.starts_with(&w.out) {
                    vio(rep, "output_not_a_prefix", format!("{} bytes written before the error are not a prefix of the fault-free output", w.out.len()));
                }
            }
        }
    }
    // ---- (c) write fault at every position
    for k in 0..nwrites {
        let kind = *rng.pick(&KINDS);
        let mut rd = SchedReader::new(&c.data, &c.schedule);
        let mut w = LogWriter::new(c.partial_writes);
        w.fail_at = Some((k, kind));
        let r = with_spare(c.spare, || guard(|| stream_replace(s, &mut rd, &mut w, &c.repl)));
        rep.eval();
        rep.tally("write_faults_injected");
        rep.nontrivial(h ^ Fnv::new().u64(k as u64).u64(3).get());
        let vio = |rep: &mut Report, f: &str, d: String| {
            rep.violation(
                &format!("replace:write_fault:{}", f),
                d,
                c.to_json().with("fault", J::obj().with("op", J::s("write")).with("k", J::i(k)).with("kind", J::s(&format!("{:?}", kind)))),
            )
        };
        match r {
            Err(p) => vio(rep, "panic", format!("panic with write fault at call {}: {}", k, p)),
            Ok(Ok(())) => {
                // std's write_all retries ErrorKind::Interrupted: then the
                // write is not a failure and the output must be complete.
                if kind == ErrorKind::Interrupted {
                    rep.tally("interrupted_writes_retried_by_write_all");
                    if w.out != base_out {
                        vio(rep, "output_after_retry", "output differs after a retried (Interrupted) write".into());
                    }
                } else {
                    vio(rep, "error_swallowed", format!("write call {} failed with {:?} but stream replacement returned Ok", k, kind));
                }
            }
            Ok(Err(_)) => {
                if !base_out.starts_with(&w.out) {
                    vio(rep, "output_not_a_prefix", format!("{} bytes accepted before the error are not a prefix of the fault-free output", w.out.len()));
                }
            }
        }
    }
    // ---- (c') the writer stops ACCEPTING bytes instead of returning an error:
    // `Ok(0)` for a non-empty buffer, once at call k, or for good once a fixed
    // capacity is used up (`&mut [u8]`, `Cursor<&mut [u8]>`, a full device).
    // `Write::write_all` defines that as a failure (`ErrorKind::WriteZero`):
    // the bytes were not written, so reporting success would hand the caller a
    // silently truncated output.
    let mut zero_runs: Vec<(Option<usize>, Option<usize>)> = (0..nwrites).map(|k| (Some(k), None)).collect();
    if !base_out.is_empty() {
        for cap in [0, 1, base_out.len() / 2, base_out.len() - 1] {
            if cap < base_out.len() {
                zero_runs.push((None, Some(cap)));
            }
        }
    }
    for (zk, cap) in zero_runs {
        let mut rd = SchedReader::new(&c.data, &c.schedule);
        let mut w = LogWriter::new(c.partial_writes);
        w.zero_at = zk;
        w.capacity = cap;
        let with_closure = (h ^ zk.unwrap_or(7) as u64) % 3 == 0;
        let r = with_spare(c.spare, || guard(|| if with_closure {
            stream_replace_with(s, &mut rd, &mut w, &c.repl, &mut vec![])
        } else {
            stream_replace(s, &mut rd, &mut w, &c.repl)
        }));
        rep.eval();
        if w.refused == 0 {
            // (the closure variant writes more often with less; the refusal
            // was then never reached)
            rep.tally("write_refusals_not_reached");
            continue;
        }
        rep.tally(if zk.is_some() { "writes_accepting_nothing_injected" } else { "fixed_capacity_sinks" });
        let vio = |rep: &mut Report, f: &str, d: String| {
            rep.violation(
                &format!("replace:write_zero:{}", f),
                d,
                c.to_json().with("fault", J::obj().with("op", J::s("write returns Ok(0)")).with("k", zk.map_or(J::Null, J::i)).with("capacity", cap.map_or(J::Null, J::i))),
            )
        };
        match r {
            Err(p) => vio(rep, "panic", format!("panic when the writer accepted nothing: {}", p)),
            Ok(Ok(())) => vio(rep, "error_swallowed", format!(
                "the writer accepted nothing (Ok(0) for a non-empty buffer; call {:?}, capacity {:?}) but stream replacement returned Ok with {} of {} bytes written",
                zk, cap, w.out.len(), base_out.len())),
            Ok(Err(_)) => {
                if !with_closure && !base_out.starts_with(&w.out) {
                    vio(rep, "output_not_a_prefix", format!("{} bytes accepted before the error are not a prefix of the fault-free output", w.out.len()));
                }
            }
        }
    }
    // ---- (d) both: read fault and write fault in one run (sampled pairs)
    if nreads_r > 0 && nwrites > 0 {
        for _ in 0..3 {
            let (kr, kw) = (rng.below(nreads_r), rng.below(nwrites));
            let mut rd = SchedReader::new(&c.data, &c.schedule);
            rd.fail_at = Some((kr, ErrorKind::Other));
            let mut w = LogWriter::new(c.partial_writes);
            w.fail_at = Some((kw, ErrorKind::Other));
            let r = with_spare(c.spare, || guard(|| stream_replace(s, &mut rd, &mut w, &c.repl)));
            rep.eval();
            rep.tally("double_faults_injected");
            match r {
                Err(p) => rep.violation("replace:double_fault:panic", format!("panic: {}", p), c.to_json()),
                Ok(Ok(())) => rep.violation("replace:double_fault:error_swallowed", format!("read fault at {} and write fault at {} but Ok returned", kr, kw), c.to_json()),
                Ok(Err(_)) => {
                    if !base_out.starts_with(&w.out) {
                        rep.violation("replace:double_fault:output_not_a_prefix", "written bytes are not a prefix of the fault-free output".into(), c.to_json());
                    }
                }
            }
        }
    }
    if rep.want_sample() && rolls0 > 0 && c.data.len() < 60 && !base_ms.is_empty() {
        rep.sample(
            J::obj()
                .with("patterns", pats_show(&c.pats))
                .with("stream", J::Str(show(&c.data)))
                .with("read_schedule", J::Arr(c.schedule.iter().map(|&x| J::i(x)).collect()))
                .with("buffer_spare", c.spare.map_or(J::Null, J::i))
                .with("fault_positions_enumerated", J::obj().with("read_find", J::i(nreads)).with("read_replace", J::i(nreads_r)).with("write", J::i(nwrites)))
                .with("fault_free_matches", ms_json(&base_ms))
                .with("fault_free_output", J::Str(show(&base_out))),
        );
    }
}

// ------------------------------------------------------------ drivers

pub fn run(prop: &str, ctx: &Ctx, rep: &mut Report) {
    let n = match prop {
        "C18" => ctx.tier.pick(10, 8000, 1_000_000),
        _ => ctx.tier.pick(30, 4000, 400_000),
    };
    let n_default = match prop {
        "C18" => 0,
        _ => ctx.tier.pick(1, 2, 20),
    };
    let mut root = Rng::new(ctx.seed).fork(0x57 + ctx.shard as u64);
    // boundary pattern lengths at the default capacity: every length is
    // covered on every run (spread over the shards)
    if prop != "C18" && ctx.tier != Tier::Tiny {
        for (k, &len) in BOUNDARY_PATTERN_LENS.iter().enumerate() {
            if !ctx.mine(k) {
                continue;
            }
            let reps = ctx.tier.pick(1, 1, 6);
            for r in 0..reps {
                let mut rng = root.fork(0xB0_0000 + (k * 16 + r) as u64);
                let c = boundary_case(&mut rng, len);
                if let Some(s) = build(rep, &c) {
                    rep.tally("boundary_pattern_length_cases");
                    match prop {
                        "C07" => c07_check(rep, &c, &s),
                        _ => c08_check(rep, &c, &s),
                    }
                }
            }
        }
    }
    // prefilter x refill family
    if prop != "C18" {
        let np = ctx.tier.pick(5, 1500, 80_000);
        for i in 0..np {
            let mut rng = root.fork(0xF1_0000 + i as u64);
            let c = prefilter_stream_case(&mut rng);
            if let Some(s) = build(rep, &c) {
                rep.tally("prefilter_refill_cases");
                match prop {
                    "C07" => c07_check(rep, &c, &s),
                    _ => c08_check(rep, &c, &s),
                }
            }
        }
    }
    for i in 0..n + n_default {
        let mut rng = root.fork(i as u64);
        let c = gen_case(&mut rng, ctx.tier, i >= n, prop == "C18");
        let s = match build(rep, &c) {
            Some(s) => s,
            None => continue,
        };
        match prop {
            "C07" => c07_check(rep, &c, &s),
            "C08" => c08_check(rep, &c, &s),
            "C18" => c18_check(rep, &c, &s, &mut rng),
            _ => unreachable!(),
        }
    }
    rep.tally_n("stream_cases", (n + n_default) as u64);
}

pub fn replay(prop: &str, case: &J, rep: &mut Report) -> Result<(), String> {
    let c = StreamCase::from_json(case)?;
    let s = c.cfg.build(&c.pats)?;
    let mut rng = Rng::new(1);
    match prop {
        "C07" => c07_check(rep, &c, &s),
        "C08" => c08_check(rep, &c, &s),
        "C18" => c18_check(rep, &c, &s, &mut rng),
        _ => return Err("bad property".into()),
    }
    Ok(())
}

#[allow(dead_code)]
fn _unused(_: &dyn Automaton) {}
