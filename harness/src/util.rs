//! PRNG, hashing, hex and a tiny JSON value type (writer + parser).
//! No external crates: the sandbox is offline and the harness must stay small.

use std::collections::BTreeMap;
use std::fmt::Write as _;

// ---------------------------------------------------------------- PRNG

#[derive(Clone, Debug)]
pub struct Rng(pub u64);

impl Rng {
    pub fn new(seed: u64) -> Rng {
        let mut r = Rng(seed ^ 0x9E37_79B9_7F4A_7C15);
        r.next();
        r
    }
    /// Derive an independent stream.
    pub fn fork(&mut self, salt: u64) -> Rng {
        let a = self.next();
        Rng::new(a ^ salt.wrapping_mul(0xD6E8_FEB8_6659_FD93))
    }
    /// splitmix64
    pub fn next(&mut self) -> u64 {
        self.0 = self.0.wrapping_add(0x9E37_79B9_7F4A_7C15);
        let mut z = self.0;
        z = (z ^ (z >> 30)).wrapping_mul(0xBF58_476D_1CE4_E5B9);
        z = (z ^ (z >> 27)).wrapping_mul(0x94D0_49BB_1331_11EB);
        z ^ (z >> 31)
    }
    /// Uniform in 0..n (n > 0).
    pub fn below(&mut self, n: usize) -> usize {
        debug_assert!(n > 0);
        (self.next() % (n as u64)) as usize
    }
    /// Uniform in lo..=hi.
    pub fn range(&mut self, lo: usize, hi: usize) -> usize {
        lo + self.below(hi - lo + 1)
    }
    pub fn chance(&mut self, num: usize, den: usize) -> bool {
        self.below(den) < num
    }
    pub fn pick<'a, T>(&mut self, xs: &'a [T]) -> &'a T {
        &xs[self.below(xs.len())]
    }
    pub fn shuffle<T>(&mut self, xs: &mut [T]) {
        for i in (1..xs.len()).rev() {
            let j = self.below(i + 1);
            xs.swap(i, j);
        }
    }
}

// ---------------------------------------------------------------- hashing

/// FNV-1a 64, used for "distinct case" accounting and result hashes.
#[derive(Clone, Copy)]
pub struct Fnv(pub u64);

impl Fnv {
    pub fn new() -> Fnv {
        Fnv(0xcbf2_9ce4_8422_2325)
    }
    pub fn bytes(&mut self, b: &[u8]) -> &mut Fnv {
        for &x in b {
            self.0 ^= x as u64;
            self.0 = self.0.wrapping_mul(0x1000_0000_01b3);
        }
        // length terminator so that concatenations don't collide trivially
        self.u64(b.len() as u64 ^ 0xA5A5)
    }
    pub fn u64(&mut self, v: u64) -> &mut Fnv {
        for i in 0..8 {
            self.0 ^= (v >> (i * 8)) & 0xff;
            self.0 = self.0.wrapping_mul(0x1000_0000_01b3);
        }
        self
    }
    pub fn str(&mut self, s: &str) -> &mut Fnv {
        self.bytes(s.as_bytes())
    }
    pub fn get(&self) -> u64 {
        self.0
    }
}

// ---------------------------------------------------------------- hex

pub fn hex(b: &[u8]) -> String {
    let mut s = String::with_capacity(b.len() * 2);
    for x in b {
        let _ = write!(s, "{:02x}", x);
    }
    s
}

pub fn unhex(s: &str) -> Result<Vec<u8>, String> {
    let b = s.as_bytes();
    if b.len() % 2 != 0 {
        return Err(format!("odd hex length: {}", s));
    }
    let v = |c: u8| -> Result<u8, String> {
        match c {
            b'0'..=b'9' => Ok(c - b'0'),
            b'a'..=b'f' => Ok(c - b'a' + 10),
            b'A'..=b'F' => Ok(c - b'A' + 10),
            _ => Err(format!("bad hex char {:?}", c as char)),
        }
    };
    let mut out = Vec::with_capacity(b.len() / 2);
    for ch in b.chunks(2) {
        out.push(v(ch[0])? * 16 + v(ch[1])?);
    }
    Ok(out)
}

/// Human-friendly rendering of a byte string for samples (lossless: printable
/// ASCII as is, everything else as \xNN).
pub fn show(b: &[u8]) -> String {
    let mut s = String::new();
    for &x in b {
        if (0x20..0x7f).contains(&x) && x != b'\\' {
            s.push(x as char);
        } else {
            let _ = write!(s, "\\x{:02x}", x);
        }
    }
    s
}

// ---------------------------------------------------------------- JSON

#[derive(Clone, Debug, PartialEq)]
pub enum J {
    Null,
    Bool(bool),
    Int(i64),
    Str(String),
    Arr(Vec<J>),
    Obj(BTreeMap<String, J>),
}

impl J {
    pub fn obj() -> J {
        J::Obj(BTreeMap::new())
    }
    pub fn set(&mut self, k: &str, v: J) -> &mut J {
        if let J::Obj(m) = self {
            m.insert(k.to_string(), v);
        } else {
            panic!("J::set on non-object");
        }
        self
    }
    pub fn with(mut self, k: &str, v: J) -> J {
        self.set(k, v);
        self
    }
    pub fn get(&self, k: &str) -> Option<&J> {
        match self {
            J::Obj(m) => m.get(k),
            _ => None,
        }
    }
    pub fn s(v: &str) -> J {
        J::Str(v.to_string())
    }
    pub fn i(v: usize) -> J {
        J::Int(v as i64)
    }
    pub fn u(v: u64) -> J {
        J::Int(v as i64)
    }
    pub fn as_str(&self) -> Option<&str> {
        match self {
            J::Str(s) => Some(s),
            _ => None,
        }
    }
    pub fn as_i64(&self) -> Option<i64> {
        match self {
            J::Int(i) => Some(*i),
            _ => None,
        }
    }
    pub fn as_usize(&self) -> Option<usize> {
        self.as_i64().map(|i| i as usize)
    }
    pub fn as_bool(&self) -> Option<bool> {
        match self {
            J::Bool(b) => Some(*b),
            _ => None,
        }
    }
    pub fn as_arr(&self) -> Option<&[J]> {
        match self {
            J::Arr(a) => Some(a),
            _ => None,
        }
    }

    pub fn to_string(&self) -> String {
        let mut s = String::new();
        self.write(&mut s);
        s
    }

    fn write(&self, out: &mut String) {
        match self {
            J::Null => out.push_str("null"),
            J::Bool(b) => out.push_str(if *b { "true" } else { "false" }),
            J::Int(i) => {
                let _ = write!(out, "{}", i);
            }
            J::Str(s) => write_str(out, s),
            J::Arr(a) => {
                out.push('[');
                for (i, v) in a.iter().enumerate() {
                    if i > 0 {
                        out.push(',');
                    }
                    v.write(out);
                }
                out.push(']');
            }
            J::Obj(m) => {
                out.push('{');
                for (i, (k, v)) in m.iter().enumerate() {
                    if i > 0 {
                        out.push(',');
                    }
                    write_str(out, k);
                    out.push(':');
                    v.write(out);
                }
                out.push('}');
            }
        }
    }

    pub fn parse(s: &str) -> Result<J, String> {
        let mut p = Parser { b: s.as_bytes(), i: 0 };
        p.ws();
        let v = p.value()?;
        p.ws();
        if p.i != p.b.len() {
            return Err(format!("trailing data at {}", p.i));
        }
        Ok(v)
    }
}

fn write_str(out: &mut String, s: &str) {
    out.push('"');
    for c in s.chars() {
        match c {
            '"' => out.push_str("\\\""),
            '\\' => out.push_str("\\\\"),
            '\n' => out.push_str("\\n"),
            '\r' => out.push_str("\\r"),
            '\t' => out.push_str("\\t"),
            c if (c as u32) < 0x20 => {
                let _ = write!(out, "\\u{:04x}", c as u32);
            }
            c => out.push(c),
        }
    }
    out.push('"');
}

struct Parser<'a> {
    b: &'a [u8],
    i: usize,
}

impl<'a> Parser<'a> {
    fn ws(&mut self) {
        while self.i < self.b.len()
            && matches!(self.b[self.i], b' ' | b'\n' | b'\r' | b'\t')
        {
            self.i += 1;
        }
    }
    fn value(&mut self) -> Result<J, String> {
        self.ws();
        if self.i >= self.b.len() {
            return Err("unexpected end".into());
        }
        match self.b[self.i] {
            b'{' => {
                self.i += 1;
                let mut m = BTreeMap::new();
                self.ws();
                if self.b.get(self.i) == Some(&b'}') {
                    self.i += 1;
                    return Ok(J::Obj(m));
                }
                loop {
                    self.ws();
                    let k = self.string()?;
                    self.ws();
                    if self.b.get(self.i) != Some(&b':') {
                        return Err(format!("expected ':' at {}", self.i));
                    }
                    self.i += 1;
                    let v = self.value()?;
                    m.insert(k, v);
                    self.ws();
                    match self.b.get(self.i) {
                        Some(b',') => self.i += 1,
                        Some(b'}') => {
                            self.i += 1;
                            return Ok(J::Obj(m));
                        }
                        _ => return Err(format!("bad object at {}", self.i)),
                    }
                }
            }
            b'[' => {
                self.i += 1;
                let mut a = vec![];
                self.ws();
                if self.b.get(self.i) == Some(&b']') {
                    self.i += 1;
                    return Ok(J::Arr(a));
                }
                loop {
                    a.push(self.value()?);
                    self.ws();
                    match self.b.get(self.i) {
                        Some(b',') => self.i += 1,
                        Some(b']') => {
                            self.i += 1;
                            return Ok(J::Arr(a));
                        }
                        _ => return Err(format!("bad array at {}", self.i)),
                    }
                }
            }
            b'"' => Ok(J::Str(self.string()?)),
            b't' if self.b[self.i..].starts_with(b"true") => {
                self.i += 4;
                Ok(J::Bool(true))
            }
            b'f' if self.b[self.i..].starts_with(b"false") => {
                self.i += 5;
                Ok(J::Bool(false))
            }
            b'n' if self.b[self.i..].starts_with(b"null") => {
                self.i += 4;
                Ok(J::Null)
            }
            _ => {
                let st = self.i;
                while self.i < self.b.len()
                    && matches!(self.b[self.i], b'-' | b'+' | b'0'..=b'9' | b'.' | b'e' | b'E')
                {
                    self.i += 1;
                }
                let t = std::str::from_utf8(&self.b[st..self.i]).unwrap();
                if let Ok(i) = t.parse::<i64>() {
                    Ok(J::Int(i))
                } else if let Ok(f) = t.parse::<f64>() {
                    Ok(J::Int(f as i64))
                } else {
                    Err(format!("bad token at {}", st))
                }
            }
        }
    }
    fn string(&mut self) -> Result<String, String> {
        if self.b.get(self.i) != Some(&b'"') {
            return Err(format!("expected string at {}", self.i));
        }
        self.i += 1;
        let mut out: Vec<u8> = vec![];
        loop {
            let c = *self.b.get(self.i).ok_or("unterminated string")?;
            self.i += 1;
            match c {
                b'"' => break,
                b'\\' => {
                    let e = *self.b.get(self.i).ok_or("bad escape")?;
                    self.i += 1;
                    match e {
                        b'n' => out.push(b'\n'),
                        b'r' => out.push(b'\r'),
                        b't' => out.push(b'\t'),
                        b'b' => out.push(8),
                        b'f' => out.push(12),
                        b'u' => {
                            let h = std::str::from_utf8(
                                self.b.get(self.i..self.i + 4).ok_or("bad \\u")?,
                            )
                            .map_err(|e| e.to_string())?;
                            let cp = u32::from_str_radix(h, 16)
                                .map_err(|e| e.to_string())?;
                            self.i += 4;
                            let ch = char::from_u32(cp).unwrap_or('\u{fffd}');
                            let mut buf = [0u8; 4];
                            out.extend_from_slice(ch.encode_utf8(&mut buf).as_bytes());
                        }
                        other => out.push(other),
                    }
                }
                c => out.push(c),
            }
        }
        String::from_utf8(out).map_err(|e| e.to_string())
    }
}
