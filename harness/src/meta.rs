//! Differential / metamorphic monitors:
//! C05 prefilter on vs. off, C10 span vs. sub-slice, C11 ASCII case folding,
//! C12 replace_all = find_iter + splicing.

use aho_corasick::{automaton::Automaton, verif, Input, Span};

use crate::cfg::{Cfg, Imp, S, SK};
use crate::gen::{self, Profile};
use crate::oracle::{fold_vec, Kind, M};
use crate::packed;
use crate::report::{ms_json, pats_from_json, pats_json, pats_show, Ctx, Report, Tier};
use crate::sem::{self, guard, Built};
use crate::util::{hex, show, unhex, Fnv, Rng, J};
use crate::walk::answers;

fn hpats(pats: &[Vec<u8>]) -> Fnv {
    let mut h = Fnv::new();
    for p in pats {
        h.bytes(p);
    }
    h
}

fn build_or_report(rep: &mut Report, cfg: &Cfg, pats: &[Vec<u8>]) -> Option<S> {
    match guard(|| cfg.build(pats)) {
        Ok(Ok(s)) => Some(s),
        Ok(Err(e)) => {
            rep.violation("build:error", format!("build failed: {}", e), sem::case_json(pats, cfg, b"", (0, 0), false, "build"));
            None
        }
        Err(p) => {
            rep.violation("build:panic", format!("build panicked: {}", p), sem::case_json(pats, cfg, b"", (0, 0), false, "build"));
            None
        }
    }
}

// ------------------------------------------------------------ C05

/// Pattern lists aimed at each prefilter variant.
pub fn prefilter_patterns(rng: &mut Rng) -> (Vec<Vec<u8>>, bool) {
    let ci = rng.chance(1, 5);
    let letters = b"abcdefghijklmnopqrstuvwxyzABCDEFGHIJKLMNOPQRSTUVWXYZ";
    let common = b"etaoin srhl";
    let rare_pool = [b'z', b'Q', b'@', 0x00, b'~', b'X', b'#', 0xFF, b'j'];
    let mut pats: Vec<Vec<u8>> = vec![];
    match rng.below(10) {
        9 => {
            // one or two COMMON first bytes, every pattern with a rare byte of
            // its own behind it: the rare-byte analysis runs out of budget
            // (more than 3 rare bytes, or a pattern of 256 bytes or more)
            // while a start-byte prefilter stays possible - what is learnt
            // from the patterns that follow must still be learnt
            let k = rng.range(1, 2);
            let firsts: Vec<u8> = (0..k).map(|_| *rng.pick(b"etaoin")).collect();
            let mut rares = b"qzxjQZXJ@#~".to_vec();
            rng.shuffle(&mut rares);
            for i in 0..rng.range(4, 8) {
                let mut p = vec![*rng.pick(&firsts), rares[i]];
                let n = rng.range(0, 2);
                p.extend(gen::rand_string(rng, common, n));
                pats.push(p);
            }
            if rng.chance(1, 3) {
                let mut p = vec![firsts[0]];
                let n = rng.range(255, 300);
                p.extend(gen::rand_string(rng, common, n));
                let at = rng.below(pats.len() + 1);
                pats.insert(at, p);
            }
        }
        0 => {
            // single pattern -> memmem
            let n = rng.range(1, 12);
            pats.push(gen::rand_string(rng, letters, n));
        }
        1 | 2 => {
            // 1..3 distinct first bytes -> start bytes
            let k = rng.range(1, 3);
            let firsts: Vec<u8> = (0..k).map(|_| *rng.pick(letters)).collect();
            for _ in 0..rng.range(2, 8) {
                let mut p = vec![*rng.pick(&firsts)];
                let n = rng.range(0, 6);
                p.extend(gen::rand_string(rng, common, n));
                pats.push(p);
            }
        }
        3 | 4 => {
            // many first bytes, 1..3 shared rare bytes at varying offsets
            let k = rng.range(1, 3);
            let rares: Vec<u8> = (0..k).map(|_| *rng.pick(&rare_pool)).collect();
            for _ in 0..rng.range(4, 10) {
                let pre = rng.range(0, 5);
                let post = rng.range(0, 4);
                let mut p = gen::rand_string(rng, common, pre);
                p.push(*rng.pick(&rares));
                p.extend(gen::rand_string(rng, common, post));
                pats.push(p);
            }
        }
        5 | 6 => {
            // packed territory: 3..16 patterns, len >= 2, many first bytes
            for _ in 0..rng.range(3, 16) {
                let n = rng.range(2, 8);
                pats.push(gen::rand_string(rng, letters, n));
            }
        }
        7 => {
            // a long pattern (>= 256 bytes) must switch the rare-byte prefilter off
            // total length n+1: half of the time right on the 255/256 limit of
            // the rare-byte offset table
            let n = if rng.chance(1, 2) { *rng.pick(&[252usize, 253, 254, 255, 256, 257]) } else { rng.range(250, 300) };
            let mut p = gen::rand_string(rng, common, n);
            p.push(b'z');
            pats.push(p);
            for _ in 0..rng.range(4, 6) {
                let n = rng.range(1, 4);
                let mut p = gen::rand_string(rng, common, n);
                p.push(b'z');
                pats.push(p);
            }
        }
        _ => {
            // rare byte occurs at different offsets in different patterns
            let r = *rng.pick(&rare_pool);
            for i in 0..rng.range(4, 7) {
                let mut p = gen::rand_string(rng, common, i % 4);
                p.push(r);
                let n = rng.range(0, 3);
                p.extend(gen::rand_string(rng, common, n));
                pats.push(p);
            }
            // and once more far to the right
            let n = rng.range(6, 20);
            let mut p = gen::rand_string(rng, common, n);
            p.push(r);
            pats.push(p);
        }
    }
    (pats, ci)
}

/// Long haystack with decoys: the patterns' first/rare bytes sprinkled
/// everywhere, true matches, adjacent matches, truncated matches at the end.
pub fn decoy_haystack(rng: &mut Rng, pats: &[Vec<u8>], len: usize, ci: bool) -> Vec<u8> {
    let mut h = gen::vec_haystack(rng, pats, len);
    if pats.is_empty() || len == 0 {
        return h;
    }
    // sprinkle bytes of the patterns (any position) as decoys
    let k = len / rng.range(3, 12) + 1;
    for _ in 0..k {
        let p = rng.pick(pats);
        if p.is_empty() {
            continue;
        }
        let b = *rng.pick(p);
        let i = rng.below(len);
        h[i] = if ci && b.is_ascii_alphabetic() && rng.chance(1, 2) { b ^ 0x20 } else { b };
    }
    // adjacent matches: p q immediately following each other
    if rng.chance(1, 2) {
        let mut two = rng.pick(pats).clone();
        let second: Vec<u8> = rng.pick(pats).clone();
        two.extend_from_slice(&second);
        if two.len() <= len {
            let off = rng.range(0, len - two.len());
            for (i, &b) in two.iter().enumerate() {
                h[off + i] = if ci && b.is_ascii_alphabetic() && rng.chance(1, 2) { b ^ 0x20 } else { b };
            }
        }
    }
    h
}

fn is_match_of(s: &S, hay: &[u8], span: (usize, usize)) -> Option<Result<bool, String>> {
    match s {
        S::Top(ac) => Some(guard(|| ac.is_match(Input::new(hay).span(span.0..span.1)))),
        _ => None,
    }
}

pub fn c05_check_one(
    rep: &mut Report,
    pats: &[Vec<u8>],
    on: &Built,
    off: &Built,
    variant: &str,
    hay: &[u8],
    span: (usize, usize),
) {
    let kind = on.cfg.kind;
    verif::reset_counters();
    let a_on = answers(&on.s, kind, hay, span, false).earliest_as_existence();
    let t_on = verif::counters().transitions;
    verif::reset_counters();
    let a_off = answers(&off.s, kind, hay, span, false).earliest_as_existence();
    let t_off = verif::counters().transitions;
    rep.eval();
    rep.tally(&format!("variant_{}", variant));
    if t_on < t_off {
        rep.tally(&format!("skipped_{}", variant));
    }
    let mut h = hpats(pats);
    h.str(&on.cfg.label()).bytes(hay).u64(span.0 as u64).u64(span.1 as u64);
    if a_off.find.as_ref().map_or(false, |m| m.is_some()) && variant != "none" {
        rep.nontrivial(h.get());
    }
    let im_on = is_match_of(&on.s, hay, span);
    let im_off = is_match_of(&off.s, hay, span);
    let field = if a_on != a_off {
        a_on.diff(&a_off)
    } else if im_on != im_off {
        "is_match"
    } else {
        ""
    };
    if !field.is_empty() {
        rep.violation(
            &format!("prefilter:{}:{}:{}", variant, kind.name(), field),
            format!(
                "{} differs with prefilter {} on vs off: on={:?} off={:?} (is_match on={:?} off={:?})",
                field, variant, a_on, a_off, im_on, im_off
            ),
            sem::case_json(pats, &on.cfg, hay, span, false, "prefilter-differential").with("variant", J::s(variant)),
        );
    } else if rep.want_sample() && t_on < t_off && a_on.iter.as_ref().map_or(false, |v| v.len() >= 2) && hay.len() <= 120 {
        rep.sample(
            J::obj()
                .with("patterns", pats_show(&pats[..pats.len().min(10)]))
                .with("cfg", J::s(&on.cfg.label()))
                .with("prefilter_variant", J::s(variant))
                .with("haystack", J::Str(show(hay)))
                .with("span", J::Arr(vec![J::i(span.0), J::i(span.1)]))
                .with("automaton_transitions_with_prefilter", J::u(t_on))
                .with("automaton_transitions_without", J::u(t_off))
                .with("iter_observed_both", ms_json(a_on.iter.as_ref().unwrap())),
        );
    }
}

pub fn run_c05(ctx: &Ctx, rep: &mut Report) {
    let n = ctx.tier.pick(6, 1200, 50_000);
    let lens = gen::vec_lengths(ctx.tier == Tier::Thorough);
    let mut root = Rng::new(ctx.seed).fork(0xC05 + ctx.shard as u64);
    for li in 0..n {
        let mut rng = root.fork(li as u64);
        // every third list is structured-random (small alphabets with letters
        // in both cases and the bytes next to the letter ranges, prefixes /
        // suffixes / duplicates): what prefilter the builder then chooses, and
        // in which order it learned its bytes, is up to the builder
        let (pats, ci) = if li % 3 == 2 {
            let (p, _) = if rng.chance(1, 2) { ci_patterns(&mut rng) } else { gen::patterns(&mut rng, &gen::Profile::default_sem()) };
            let p: Vec<Vec<u8>> = p.into_iter().filter(|q| !q.is_empty()).collect();
            if p.is_empty() {
                continue;
            }
            (p, rng.chance(1, 2))
        } else {
            let (mut pats, ci) = prefilter_patterns(&mut rng);
            // the empty pattern, which rules a prefilter out wherever it stands
            // in the list (one list in six; last, first or anywhere)
            if rng.chance(1, 6) {
                let at = match rng.below(3) {
                    0 => pats.len(),
                    1 => 0,
                    _ => rng.below(pats.len() + 1),
                };
                pats.insert(at, vec![]);
            }
            (pats, ci)
        };
        for &kind in &Kind::ALL {
            let imp = *rng.pick(&Imp::ALL);
            let base = Cfg {
                imp,
                kind,
                sk: *rng.pick(&[SK::Unanchored, SK::Both]),
                ci,
                pre: true,
                dense_depth: *rng.pick(&[None, Some(0), Some(3)]),
                byte_classes: rng.chance(3, 4),
            };
                if pats.iter().any(|p| p.is_empty()) {
                rep.tally("lists_with_the_empty_pattern");
            }
            let variant = base.prefilter_variant(&pats);
            let on = match build_or_report(rep, &base, &pats) {
                Some(s) => Built { cfg: base, s },
                None => continue,
            };
            let offc = base.pre(false);
            let off = match build_or_report(rep, &offc, &pats) {
                Some(s) => Built { cfg: offc, s },
                None => continue,
            };
            let nh = ctx.tier.pick(2, 5, 8);
            for k in 0..nh {
                let len = if k == 0 && li % 8 == 5 {
                    rep.tally("long_haystacks");
                    gen::long_length(&mut rng)
                } else if k == 0 {
                    rng.range(300, 4200)
                } else {
                    *rng.pick(&lens)
                };
                let hay = decoy_haystack(&mut rng, &pats, len, ci);
                for sp in gen::vec_spans(&mut rng, hay.len()).into_iter().take(4) {
                    c05_check_one(rep, &pats, &on, &off, &variant, &hay, sp);
                }
            }
        }
    }
    rep.tally_n("pattern_lists", n as u64);
    // Candidate-free gaps of 2^16 and 2^20 bytes behind a false candidate, with
    // an occurrence straddling the end of the gap at every alignment: whatever
    // a search loop does "every so many bytes" while a prefilter finds nothing
    // must not lose the occurrence behind it.
    let mega = ctx.tier.pick(0, 3, 10);
    let mut done = 0;
    let mut li = 0u64;
    while done < mega && li < 400 {
        li += 1;
        let mut rng = root.fork(0x3E6A_0000 + li);
        let (pats, ci) = prefilter_patterns(&mut rng);
        if ci || pats.iter().any(|p| p.is_empty()) || pats.iter().map(|p| p.len()).sum::<usize>() > 400 {
            continue;
        }
        let kind = Kind::ALL[(li as usize + ctx.shard) % 3];
        let base = Cfg::new(*rng.pick(&[Imp::TopCnfa, Imp::TopDfa, Imp::LowNnfa, Imp::TopAuto]), kind);
        let variant = base.prefilter_variant(&pats);
        if variant == "none" {
            continue;
        }
        let (on, off) = match (build_or_report(rep, &base, &pats), build_or_report(rep, &base.pre(false), &pats)) {
            (Some(a), Some(b)) => (Built { cfg: base, s: a }, Built { cfg: base.pre(false), s: b }),
            _ => continue,
        };
        let mut used = [false; 256];
        for p in &pats {
            for &b in p {
                used[b as usize] = true;
            }
        }
        let filler = match (b'0'..=b'9').chain(0x80..=0xFFu8).find(|&b| !used[b as usize]) {
            Some(f) => f,
            None => continue,
        };
        let p = rng.pick(&pats).clone();
        for (gi, &gap) in [1usize << 16, 1 << 20, 1 << 20, 1 << 20].iter().enumerate() {
            // false candidate: one byte of the pattern on its own
            let mut hay = vec![filler; 3 + rng.below(5)];
            hay.push(*rng.pick(&p));
            let back_in_start_state = hay.len();
            // the occurrence begins j bytes before the end of the gap
            let j = if gi == 0 { rng.below(p.len() + 1) } else { (gi - 1) * p.len() / 2 + rng.below(2) };
            let j = j.min(p.len());
            hay.extend(std::iter::repeat(filler).take(gap - j));
            debug_assert_eq!(hay.len(), back_in_start_state + gap - j);
            hay.extend_from_slice(&p);
            hay.extend(std::iter::repeat(filler).take(50));
            hay.extend_from_slice(&p);
            hay.push(filler);
            let l = hay.len();
            c05_check_one(rep, &pats, &on, &off, &variant, &hay, (0, l));
            rep.tally("gap_cases");
            rep.tally(&format!("gap_cases_{}", variant));
        }
        done += 1;
    }
}

pub fn replay_c05(case: &J, rep: &mut Report) -> Result<(), String> {
    let c = sem::parse_case(case)?;
    let on = Built { cfg: c.cfg.pre(true), s: c.cfg.pre(true).build(&c.pats)? };
    let off = Built { cfg: c.cfg.pre(false), s: c.cfg.pre(false).build(&c.pats)? };
    let variant = on.cfg.prefilter_variant(&c.pats);
    c05_check_one(rep, &c.pats, &on, &off, &variant, &c.hay, c.span);
    Ok(())
}

// ------------------------------------------------------------ C10

fn inside(ms: &[M], span: (usize, usize)) -> bool {
    ms.iter().all(|m| m.1 >= span.0 && m.2 <= span.1 && m.1 <= m.2)
}

/// Rewrite the bytes outside the span: random bytes, or bytes that would
/// complete / start a pattern occurrence across the span boundary.
fn rewrite_outside(rng: &mut Rng, pats: &[Vec<u8>], hay: &[u8], span: (usize, usize), mode: usize) -> Vec<u8> {
    let mut h = hay.to_vec();
    let (s, e) = span;
    match mode {
        0 => {
            for i in (0..s).chain(e..hay.len()) {
                h[i] = rng.below(256) as u8;
            }
        }
        _ => {
            // left: the head of a pattern ending right at s so that the
            // pattern would straddle the boundary; right: the tail
            for i in (0..s).chain(e..hay.len()) {
                h[i] = rng.below(256) as u8;
            }
            let cands: Vec<&Vec<u8>> = pats.iter().filter(|p| p.len() >= 2).collect();
            if !cands.is_empty() {
                let p = *rng.pick(&cands);
                let k = rng.range(1, p.len() - 1); // bytes placed before s
                if k <= s {
                    h[s - k..s].copy_from_slice(&p[..k]);
                    // make the inside continue the pattern when it fits
                }
                let p = *rng.pick(&cands);
                let k = rng.range(1, p.len() - 1); // bytes placed after e
                if e + k <= hay.len() {
                    h[e..e + k].copy_from_slice(&p[p.len() - k..]);
                }
                // whole patterns entirely outside
                let p = *rng.pick(&cands);
                if p.len() <= s {
                    h[..p.len()].copy_from_slice(p);
                }
                if e + p.len() <= hay.len() {
                    let st = hay.len() - p.len();
                    h[st..].copy_from_slice(p);
                }
            }
        }
    }
    debug_assert_eq!(&h[s.min(e)..e], &hay[s.min(e)..e]);
    h
}

pub fn c10_check_one(
    rep: &mut Report,
    rng: &mut Rng,
    pats: &[Vec<u8>],
    b: &Built,
    hay: &[u8],
    span: (usize, usize),
    anchored: bool,
) {
    let kind = b.cfg.kind;
    let mut h = hpats(pats);
    h.str(&b.cfg.label()).bytes(hay).u64(span.0 as u64).u64(span.1 as u64).u64(anchored as u64);
    let a_span = answers(&b.s, kind, hay, span, anchored);
    rep.eval();
    let vio = |rep: &mut Report, f: &str, d: String, extra: J| {
        rep.violation(
            &format!("span:{}:{}:{}", if anchored { "anchored" } else { "unanchored" }, kind.name(), f),
            d,
            sem::case_json(pats, &b.cfg, hay, span, anchored, "span-metamorphic").with("extra", extra),
        );
    };
    if span.0 > span.1 {
        // start = end + 1: nothing may be reported
        rep.tally("done_spans");
        if !a_span.all_matches().is_empty() {
            vio(rep, "match_in_done_span", format!("matches reported for the span {:?}: {:?}", span, a_span), J::Null);
        }
        return;
    }
    let all = a_span.all_matches();
    if !all.is_empty() && (span.0 > 0 || span.1 < hay.len()) {
        rep.nontrivial(h.get());
    }
    if !inside(&all, span) {
        vio(rep, "match_outside_span", format!("a reported match lies outside the span {:?}: {:?}", span, a_span), J::Null);
    }
    // Input::range in its various forms must describe the same search as Input::span
    {
        let base = &a_span.find;
        let mut forms: Vec<(&str, Input<'_>)> = vec![("range(s..e)", Input::new(hay).range(span.0..span.1))];
        if span.1 > span.0 {
            forms.push(("range(s..=e-1)", Input::new(hay).range(span.0..=span.1 - 1)));
        }
        if span.0 == 0 {
            forms.push(("range(..e)", Input::new(hay).range(..span.1)));
        }
        if span.1 == hay.len() {
            forms.push(("range(s..)", Input::new(hay).range(span.0..)));
        }
        {
            use std::ops::Bound;
            if span.0 >= 1 {
                forms.push(("range((Excluded(s-1), Excluded(e)))", Input::new(hay).range((Bound::Excluded(span.0 - 1), Bound::Excluded(span.1)))));
                if span.1 == hay.len() {
                    forms.push(("range((Excluded(s-1), Unbounded))", Input::new(hay).range((Bound::Excluded(span.0 - 1), Bound::Unbounded))));
                }
            }
            if span.1 > span.0 {
                forms.push(("range((Included(s), Included(e-1)))", Input::new(hay).range((Bound::Included(span.0), Bound::Included(span.1 - 1)))));
            }
            forms.push(("range((Unbounded.., Excluded(e)))", Input::new(hay).span(span.0..span.1).range((Bound::Included(span.0), Bound::Excluded(span.1)))));
        }
        let mut via_set = Input::new(hay);
        via_set.set_start(span.0.min(hay.len()));
        via_set.set_end(span.1);
        via_set.set_start(span.0);
        forms.push(("set_start/set_end", via_set));
        for (name, inp) in forms {
            let got = sem::call(|| b.s.try_find(inp.anchored(crate::cfg::anch(anchored))));
            rep.eval();
            rep.tally("input_range_forms");
            if &got != base {
                vio(rep, "range_form", format!("try_find with Input::{} = {:?}, with Input::span = {:?}", name, got, base), J::Null);
            }
        }
    }
    // sub-slice search, shifted
    let sub = &hay[span.0..span.1];
    let a_sub = answers(&b.s, kind, sub, (0, sub.len()), anchored).shifted(span.0);
    rep.eval();
    if a_sub != a_span {
        let f = a_span.diff(&a_sub);
        vio(
            rep,
            &format!("subslice_{}", f),
            format!("{} on the span {:?} = {:?} differs from the sub-slice search shifted = {:?}", f, span, a_span, a_sub),
            J::Null,
        );
    }
    // outside bytes are irrelevant
    for mode in 0..2 {
        if span.0 == 0 && span.1 == hay.len() {
            break;
        }
        let h2 = rewrite_outside(rng, pats, hay, span, mode);
        let a2 = answers(&b.s, kind, &h2, span, anchored);
        rep.eval();
        rep.tally("outside_rewrites");
        if a2 != a_span {
            let f = a_span.diff(&a2);
            vio(
                rep,
                &format!("outside_bytes_{}", f),
                format!("{} changed after rewriting bytes outside the span {:?}: before {:?}, after {:?}", f, span, a_span, a2),
                J::obj().with("rewritten_haystack", J::Str(hex(&h2))),
            );
        }
    }
    if rep.want_sample() && all.len() >= 2 && span.0 > 0 && span.1 < hay.len() && hay.len() < 100 {
        rep.sample(
            J::obj()
                .with("patterns", pats_show(&pats[..pats.len().min(10)]))
                .with("cfg", J::s(&b.cfg.label()))
                .with("haystack", J::Str(show(hay)))
                .with("span", J::Arr(vec![J::i(span.0), J::i(span.1)]))
                .with("anchored", J::Bool(anchored))
                .with("iter_on_span_observed", ms_json(a_span.iter.as_ref().map(|v| &v[..]).unwrap_or(&[])))
                .with("equals_subslice_shifted_and_survives_outside_rewrites", J::Bool(true)),
        );
    }
}

/// packed::Searcher::find_in on a span vs. on the sub-slice.
fn c10_packed(rep: &mut Report, ctx: &Ctx) {
    let n = ctx.tier.pick(2, 200, 8000);
    packed::for_each_case(ctx, rep, n, &mut |rep, pats, kind, v, s, imp, _ml, hay, sp| {
        let f = |hay: &[u8], sp: (usize, usize)| {
            guard(|| s.find_in(hay, Span { start: sp.0, end: sp.1 }).map(|m| (m.pattern().as_usize(), m.start(), m.end())))
        };
        let a = f(hay, sp);
        let sub = &hay[sp.0..sp.1];
        let bsub = f(sub, (0, sub.len())).map(|o| o.map(|m| (m.0, m.1 + sp.0, m.2 + sp.0)));
        rep.eval();
        rep.tally(&format!("packed_span_{}", imp));
        if a != bsub {
            rep.violation(
                &format!("packed_span:{}:{}:subslice", imp, kind.name()),
                format!("packed find_in on span {:?} = {:?}, on the sub-slice (shifted) = {:?}", sp, a, bsub),
                J::obj()
                    .with("packed", J::Bool(true))
                    .with("patterns", pats_json(pats))
                    .with("kind", J::s(kind.name()))
                    .with("variant", J::s(v.name()))
                    .with("haystack", J::Str(hex(hay)))
                    .with("span", J::Arr(vec![J::i(sp.0), J::i(sp.1)])),
            );
        } else if let Ok(Some(m)) = a {
            if m.1 < sp.0 || m.2 > sp.1 {
                rep.violation(
                    &format!("packed_span:{}:{}:outside", imp, kind.name()),
                    format!("packed match {:?} outside span {:?}", m, sp),
                    J::obj()
                        .with("packed", J::Bool(true))
                        .with("patterns", pats_json(pats))
                        .with("kind", J::s(kind.name()))
                        .with("variant", J::s(v.name()))
                        .with("haystack", J::Str(hex(hay)))
                        .with("span", J::Arr(vec![J::i(sp.0), J::i(sp.1)])),
                );
            }
        }
    });
}

/// Offsets beyond 2^32 (64-bit targets): a haystack of 4 GiB + 4 KiB that is
/// never touched except in its last pages (zeroed allocations are mapped
/// lazily, so this costs a few pages of memory), occurrences planted around
/// the 2^32 mark, spans around it. Every API on the span must equal the same
/// API on the sub-slice shifted by the span start, and lie inside the span.
/// Shard 0 only; not under the interpreters.
pub fn c10_far_offsets(ctx: &Ctx, rep: &mut Report) {
    far_offsets(ctx, rep, &Kind::ALL)
}

/// (also run by C01 for the leftmost kinds: what a search reports beyond 2^32
/// is then compared with the same search on the sub-slice, which the reference
/// model covers)
pub fn far_offsets(ctx: &Ctx, rep: &mut Report, kinds: &[Kind]) {
    if ctx.shard != 0 || ctx.tier == Tier::Tiny || cfg!(miri) || usize::BITS < 64 {
        return;
    }
    let base = 1usize << 32;
    let total = base + 4096;
    // (allocated by hand: a refusal must not abort the process)
    struct Zeroed(*mut u8, std::alloc::Layout);
    impl Drop for Zeroed {
        fn drop(&mut self) {
            unsafe { std::alloc::dealloc(self.0, self.1) }
        }
    }
    let layout = std::alloc::Layout::from_size_align(total, 4096).unwrap();
    let raw = unsafe { std::alloc::alloc_zeroed(layout) };
    if raw.is_null() {
        rep.tally("far_offsets_skipped_no_memory");
        return;
    }
    let guard_ = Zeroed(raw, layout);
    let hay: &mut [u8] = unsafe { std::slice::from_raw_parts_mut(guard_.0, total) };
    let mut rng = Rng::new(ctx.seed).fork(0xFA12);
    let pats: Vec<Vec<u8>> = vec![b"abcde".to_vec(), b"bcd".to_vec(), b"cdefgh".to_vec(), b"e".to_vec(), b"zab".to_vec()];
    for at in [base - 40, base - 3, base + 2, base + 17, base + 90, base + 700] {
        let p = rng.pick(&pats).clone();
        hay[at..at + p.len()].copy_from_slice(&p);
    }
    hay[base - 2..base + 3].copy_from_slice(b"abcde"); // straddles the mark
    let t0 = std::time::Instant::now();
    let spans = [(base - 64, base + 1000), (base - 1, base + 40), (base, base + 300), (base + 1, base + 4096), (base - 200, base - 1), (base - 2, base + 3)];
    for &kind in kinds {
        for imp in Imp::ALL {
            for pre in [false, true] {
                let cfg = Cfg::new(imp, kind).sk(SK::Both).pre(pre);
                let s = match build_or_report(rep, &cfg, &pats) {
                    Some(s) => s,
                    None => continue,
                };
                for &span in &spans {
                    for anchored in [false, true] {
                        let a_span = answers(&s, kind, hay, span, anchored);
                        let sub = &hay[span.0..span.1];
                        let a_sub = answers(&s, kind, sub, (0, sub.len()), anchored).shifted(span.0);
                        rep.evals(2);
                        rep.tally("far_offset_searches");
                        let all = a_span.all_matches();
                        if !all.is_empty() {
                            rep.tally("far_offset_searches_with_matches");
                        }
                        let small = J::obj()
                            .with("patterns", pats_json(&pats))
                            .with("cfg", cfg.to_json())
                            .with("what", J::s("far_offsets"))
                            .with("span", J::Arr(vec![J::u(span.0 as u64), J::u(span.1 as u64)]))
                            .with("anchored", J::Bool(anchored));
                        // (one witness is enough: on a broken tree every further
                        // search here may crawl through 4 GiB)
                        if !inside(&all, span) {
                            rep.violation(
                                &format!("span:far_offsets:{}:match_outside_span", kind.name()),
                                format!("beyond 2^32: a reported match lies outside the span {:?}: {:?}", span, a_span),
                                small,
                            );
                            return;
                        } else if a_span.earliest_as_existence() != a_sub.earliest_as_existence() {
                            rep.violation(
                                &format!("span:far_offsets:{}:subslice", kind.name()),
                                format!("beyond 2^32: searching the span {:?} = {:?}, the sub-slice shifted by its start = {:?}", span, a_span, a_sub),
                                small,
                            );
                            return;
                        }
                        if t0.elapsed().as_secs() > 90 {
                            rep.tally("far_offsets_cut_short_slow");
                            return;
                        }
                    }
                }
            }
        }
    }
}

pub fn run_c10(ctx: &Ctx, rep: &mut Report) {
    let n = ctx.tier.pick(6, 900, 100_000);
    let lens = gen::vec_lengths(false);
    let mut root = Rng::new(ctx.seed).fork(0xC10 + ctx.shard as u64);
    for li in 0..n {
        let mut rng = root.fork(li as u64);
        // alternate between prefilter-directed lists and general lists
        let (pats, ci) = if li % 2 == 0 {
            prefilter_patterns(&mut rng)
        } else {
            let (p, _) = gen::patterns(&mut rng, &Profile::default_sem());
            (p, rng.chance(1, 5))
        };
        for &kind in &Kind::ALL {
            for anchored in [false, true] {
                let cfg = {
                    let mut c = sem::rand_cfg(&mut rng, kind, anchored, ci);
                    if li % 2 == 0 {
                        c.pre = true;
                    }
                    c
                };
                let variant = cfg.prefilter_variant(&pats);
                let b = match build_or_report(rep, &cfg, &pats) {
                    Some(s) => Built { cfg, s },
                    None => continue,
                };
                rep.tally(&format!("variant_{}", variant));
                let nh = ctx.tier.pick(1, 3, 5);
                for k in 0..nh {
                    let len = if k == 0 && li % 8 == 5 {
                        rep.tally("long_haystacks");
                        gen::long_length(&mut rng)
                    } else {
                        *rng.pick(&lens)
                    };
                    let hay = decoy_haystack(&mut rng, &pats, len, ci);
                    let mut spans = gen::vec_spans(&mut rng, hay.len());
                    if hay.len() > 0 {
                        let e = rng.below(hay.len());
                        spans.push((e + 1, e));
                    }
                    for sp in spans {
                        c10_check_one(rep, &mut rng, &pats, &b, &hay, sp, anchored);
                    }
                }
            }
        }
    }
    rep.tally_n("pattern_lists", n as u64);
    c10_far_offsets(ctx, rep);
    c10_packed(rep, ctx);
}

pub fn replay_c10(case: &J, rep: &mut Report) -> Result<(), String> {
    if case.get("packed").is_some() {
        let c = packed::parse_case(case)?;
        let s = packed::build(&c.pats, c.kind, c.variant).ok_or("packed searcher not built")?;
        let f = |hay: &[u8], sp: (usize, usize)| {
            guard(|| s.find_in(hay, Span { start: sp.0, end: sp.1 }).map(|m| (m.pattern().as_usize(), m.start(), m.end())))
        };
        let a = f(&c.hay, c.span);
        let sub = &c.hay[c.span.0..c.span.1];
        let b = f(sub, (0, sub.len())).map(|o| o.map(|m| (m.0, m.1 + c.span.0, m.2 + c.span.0)));
        rep.eval();
        if a != b {
            rep.violation("packed_span:replay:subslice", format!("{:?} vs {:?}", a, b), case.clone());
        }
        return Ok(());
    }
    let c = sem::parse_case(case)?;
    let b = Built { cfg: c.cfg, s: c.cfg.build(&c.pats)? };
    let mut rng = Rng::new(7);
    // several rewrites so the replay does not depend on the original PRNG state
    for _ in 0..20 {
        c10_check_one(rep, &mut rng, &c.pats, &b, &c.hay, c.span, c.anchored);
    }
    Ok(())
}

// ------------------------------------------------------------ C11

/// Alphabet around the edges of ASCII case folding.
const CI_POOL: [u8; 16] = [
    b'a', b'A', b'z', b'Z', b'k', b'K', b'@', b'[', b'`', b'{', b'1', 0xC1, 0xE1, 0x00, 0x80, b'm',
];

fn ci_patterns(rng: &mut Rng) -> (Vec<Vec<u8>>, Vec<u8>) {
    let n = rng.range(3, 6);
    let mut alpha: Vec<u8> = vec![];
    while alpha.len() < n {
        // (one symbol in six is any byte value at all)
        let b = if rng.chance(1, 6) { rng.below(256) as u8 } else { *rng.pick(&CI_POOL) };
        if !alpha.contains(&b) {
            alpha.push(b);
        }
    }
    let np = match rng.below(8) {
        0 => rng.range(8, 40),
        _ => rng.range(1, 6),
    };
    let mut pats: Vec<Vec<u8>> = vec![];
    for _ in 0..np {
        let lo = if rng.chance(1, 12) { 0 } else { 1 };
        let len = rng.range(lo, 5);
        pats.push(gen::rand_string(rng, &alpha, len));
    }
    // patterns differing only in case / differing by 0x20 on non-letters
    for _ in 0..rng.below(3) {
        let src = rng.pick(&pats).clone();
        pats.push(src.iter().map(|&b| if rng.chance(1, 2) { b ^ 0x20 } else { b }).collect());
    }
    rng.shuffle(&mut pats);
    (pats, alpha)
}

fn ci_haystack(rng: &mut Rng, pats: &[Vec<u8>], alpha: &[u8], max: usize) -> Vec<u8> {
    let mut h = gen::haystack(rng, pats, alpha, max);
    // flip bit 0x20 at random places: case changes for letters, *different
    // bytes* for '@' / '`', '[' / '{', 0xC1 / 0xE1
    for b in h.iter_mut() {
        if rng.chance(1, 3) {
            *b ^= 0x20;
        }
    }
    h
}

pub fn c11_check_one(
    rep: &mut Report,
    pats: &[Vec<u8>],
    b: &Built,
    folded: &Built,
    hay: &[u8],
    span: (usize, usize),
    anchored: bool,
) {
    debug_assert!(b.cfg.ci && !folded.cfg.ci);
    // (a) definition-level oracle with folding
    sem::check_find_and_iter(rep, pats, b, hay, span, anchored);
    if b.cfg.kind == Kind::Standard {
        sem::check_overlapping(rep, pats, b, hay, span, anchored);
    }
    // (b) metamorphic: ci(P, H) == cs(fold P, fold H)
    let fh = fold_vec(hay);
    let a_ci = answers(&b.s, b.cfg.kind, hay, span, anchored).earliest_as_existence();
    let a_cs = answers(&folded.s, b.cfg.kind, &fh, span, anchored).earliest_as_existence();
    rep.eval();
    rep.tally("fold_metamorphic_comparisons");
    if hay.iter().any(|b| matches!(*b, b'@' | b'[' | b'`' | b'{' | 0xC1 | 0xE1)) {
        rep.tally("haystacks_with_boundary_bytes");
    }
    if a_ci != a_cs {
        let f = a_ci.diff(&a_cs);
        rep.violation(
            &format!("fold:{}:{}:{}", if anchored { "anchored" } else { "unanchored" }, b.cfg.kind.name(), f),
            format!(
                "case-insensitive {} = {:?} differs from the case-sensitive search of the folded patterns on the folded haystack = {:?}",
                f, a_ci, a_cs
            ),
            sem::case_json(pats, &b.cfg, hay, span, anchored, "fold-metamorphic"),
        );
    }
}

pub fn run_c11(ctx: &Ctx, rep: &mut Report) {
    let n = ctx.tier.pick(8, 1500, 150_000);
    let mut root = Rng::new(ctx.seed).fork(0xC11 + ctx.shard as u64);
    for li in 0..n {
        let mut rng = root.fork(li as u64);
        let (pats, alpha) = if li % 3 == 2 {
            let (p, _) = prefilter_patterns(&mut rng);
            let a: Vec<u8> = p.iter().flat_map(|q| q.iter().copied()).take(8).collect();
            (p, if a.is_empty() { vec![b'a'] } else { a })
        } else {
            ci_patterns(&mut rng)
        };
        let fpats: Vec<Vec<u8>> = pats.iter().map(|p| fold_vec(p)).collect();
        for &kind in &Kind::ALL {
            for anchored in [false, true] {
                let cfg = sem::rand_cfg(&mut rng, kind, anchored, true);
                let b = match build_or_report(rep, &cfg, &pats) {
                    Some(s) => Built { cfg, s },
                    None => continue,
                };
                let fcfg = cfg.ci(false);
                let folded = match build_or_report(rep, &fcfg, &fpats) {
                    Some(s) => Built { cfg: fcfg, s },
                    None => continue,
                };
                rep.tally(&format!("variant_{}", cfg.prefilter_variant(&pats)));
                let nh = ctx.tier.pick(2, 5, 8);
                for k in 0..nh {
                    let hay = if k == 0 && li % 8 == 5 {
                        rep.tally("long_haystacks");
                        let target = gen::long_length(&mut rng);
                        let mut h = gen::long_haystack(&mut rng, &pats, &alpha, target);
                        for b in h.iter_mut() {
                            if rng.chance(1, 3) {
                                *b ^= 0x20;
                            }
                        }
                        h
                    } else {
                        ci_haystack(&mut rng, &pats, &alpha, if k == 0 { 80 } else { 20 })
                    };
                    let sp = if k % 2 == 0 { (0, hay.len()) } else { gen::span(&mut rng, hay.len()) };
                    if sp.0 > sp.1 {
                        continue;
                    }
                    c11_check_one(rep, &pats, &b, &folded, &hay, sp, anchored);
                }
            }
        }
    }
    rep.tally_n("pattern_lists", n as u64);
}

pub fn replay_c11(case: &J, rep: &mut Report) -> Result<(), String> {
    let c = sem::parse_case(case)?;
    let cfg = c.cfg.ci(true);
    let b = Built { cfg, s: cfg.build(&c.pats)? };
    let fpats: Vec<Vec<u8>> = c.pats.iter().map(|p| fold_vec(p)).collect();
    let fcfg = cfg.ci(false);
    let folded = Built { cfg: fcfg, s: fcfg.build(&fpats)? };
    c11_check_one(rep, &c.pats, &b, &folded, &c.hay, c.span, c.anchored);
    Ok(())
}

// ------------------------------------------------------------ C12

fn utf8_alphabet(rng: &mut Rng) -> Vec<&'static str> {
    // the first and last character of every UTF-8 length class, the extremes of
    // every lead byte range (0xC2, 0xDF, 0xE0, 0xEF, 0xF0, 0xF4) included
    let pool = [
        "a", "b", "é", "ß", "€", "語", "😀", "𝄞", "\u{80}", "\u{7ff}", "\u{800}", "\u{ffff}", "\u{10000}", " ",
        "\u{7f}", "\u{0}", "\u{fff}", "\u{1000}", "\u{d7ff}", "\u{e000}", "\u{3ffff}", "\u{40000}", "\u{fffff}", "\u{100000}", "\u{10fffd}", "\u{10ffff}",
    ];
    let n = rng.range(3, 6);
    let mut v = vec![];
    while v.len() < n {
        let s = *rng.pick(&pool);
        if !v.contains(&s) {
            v.push(s);
        }
    }
    v
}

#[derive(Clone)]
pub struct ReplCase {
    pub pats: Vec<Vec<u8>>,
    pub cfg: Cfg,
    pub hay: String,
    pub repl: Vec<String>,
    /// closure returns false at this call index (0-based), if any
    pub stop_at: Option<usize>,
}

impl ReplCase {
    fn to_json(&self) -> J {
        J::obj()
            .with("patterns", pats_json(&self.pats))
            .with("patterns_show", pats_show(&self.pats))
            .with("cfg", self.cfg.to_json())
            .with("haystack", J::Str(hex(self.hay.as_bytes())))
            .with("haystack_show", J::Str(self.hay.clone()))
            .with("replacements", J::Arr(self.repl.iter().map(|r| J::Str(hex(r.as_bytes()))).collect()))
            .with("stop_at", self.stop_at.map_or(J::Null, J::i))
    }
    fn from_json(j: &J) -> Result<ReplCase, String> {
        let hay = String::from_utf8(unhex(j.get("haystack").and_then(|v| v.as_str()).ok_or("haystack")?)?)
            .map_err(|e| e.to_string())?;
        let mut repl = vec![];
        for r in j.get("replacements").and_then(|v| v.as_arr()).ok_or("replacements")? {
            repl.push(String::from_utf8(unhex(r.as_str().ok_or("repl")?)?).map_err(|e| e.to_string())?);
        }
        Ok(ReplCase {
            pats: pats_from_json(j.get("patterns").ok_or("patterns")?)?,
            cfg: Cfg::from_json(j.get("cfg").ok_or("cfg")?)?,
            hay,
            repl,
            stop_at: j.get("stop_at").and_then(|v| v.as_usize()),
        })
    }
}

/// What the closure of the `_with` variants does with its output buffer.
#[derive(Clone, Copy, PartialEq, Debug)]
enum Appends {
    /// the registered replacement, nothing else (it may be empty)
    Bare,
    /// "<k:" + replacement + ">": always something, and distinct per call
    Marked,
    /// nothing at all: the match is deleted
    Nothing,
}

fn splice_bytes(hay: &[u8], ms: &[M], repl: &[String], stop_at: Option<usize>, how: Appends) -> Vec<u8> {
    let mut out = vec![];
    let mut last = 0;
    for (k, &(p, s, e)) in ms.iter().enumerate() {
        out.extend_from_slice(&hay[last..s]);
        last = e;
        if how == Appends::Marked {
            out.extend_from_slice(format!("<{}:", k).as_bytes());
        }
        if how != Appends::Nothing {
            out.extend_from_slice(repl[p].as_bytes());
        }
        if how == Appends::Marked {
            out.push(b'>');
        }
        if stop_at == Some(k) {
            break;
        }
    }
    out.extend_from_slice(&hay[last..]);
    out
}

pub fn c12_check_one(rep: &mut Report, c: &ReplCase, s: &S) {
    let hay = c.hay.as_bytes();
    // the searcher's own non-overlapping iterator is the given
    let ms = match sem::call(|| s.try_find_iter(Input::new(hay))) {
        Ok(m) => m,
        Err(e) => {
            rep.violation("find_iter:failure", e, c.to_json());
            return;
        }
    };
    let str_ms: Vec<M> = ms
        .iter()
        .copied()
        .filter(|m| c.hay.is_char_boundary(m.1) && c.hay.is_char_boundary(m.2))
        .collect();
    let mut h = hpats(&c.pats);
    h.str(&c.cfg.label()).bytes(hay).u64(c.stop_at.map_or(u64::MAX, |x| x as u64));
    if !ms.is_empty() {
        rep.nontrivial(h.get());
    }
    if str_ms.len() < ms.len() {
        rep.tally("cases_with_non_boundary_matches");
    }
    if ms.iter().any(|m| m.1 == m.2) {
        rep.tally("cases_with_empty_matches");
    }
    let vio = |rep: &mut Report, api: &str, f: &str, d: String| {
        rep.violation(&format!("{}:{}:{}", api, c.cfg.kind.name(), f), d, c.to_json().with("api", J::s(api)));
    };
    macro_rules! on {
        ($a:ident => $e:expr) => {
            match s {
                S::Top($a) => $e,
                S::N($a) => $e,
                S::C($a) => $e,
                S::D($a) => $e,
            }
        };
    }
    // --- replace_all_bytes (table)
    {
        let exp = splice_bytes(hay, &ms, &c.repl, None, Appends::Bare);
        let got = guard(|| on!(a => a.try_replace_all_bytes(hay, &c.repl).map_err(|e| e.to_string())));
        rep.eval();
        match got {
            Err(p) => vio(rep, "replace_all_bytes", "panic", format!("panicked: {}", p)),
            Ok(Err(e)) => vio(rep, "replace_all_bytes", "error", e),
            Ok(Ok(g)) if g == exp => {}
            Ok(Ok(g)) => vio(rep, "replace_all_bytes", "output", format!("got {:?}, find_iter + splice gives {:?}", show(&g), show(&exp))),
        }
    }
    // --- replace_all (&str, table)
    {
        let exp = splice_bytes(hay, &str_ms, &c.repl, None, Appends::Bare);
        let got = guard(|| on!(a => a.try_replace_all(&c.hay, &c.repl).map_err(|e| e.to_string())));
        rep.eval();
        match got {
            Err(p) => vio(rep, "replace_all", "panic", format!("panicked: {}", p)),
            Ok(Err(e)) => vio(rep, "replace_all", "error", e),
            Ok(Ok(g)) => {
                if std::str::from_utf8(g.as_bytes()).is_err() {
                    vio(rep, "replace_all", "invalid_utf8", "result is not valid UTF-8".into());
                } else if g.as_bytes() != &exp[..] {
                    vio(rep, "replace_all", "output", format!("got {:?}, find_iter (char-boundary matches only) + splice gives {:?}", g, String::from_utf8_lossy(&exp)));
                }
            }
        }
    }
    // What the closures append varies with the case: the property speaks of
    // "what the closure appends", which may be nothing (also in the call that
    // returns false: then the match is deleted and the remainder, from the end
    // of that match, is copied).
    let how = match h.get() % 4 {
        0 | 1 => Appends::Marked,
        2 => Appends::Bare,
        _ => Appends::Nothing,
    };
    rep.tally(match how {
        Appends::Marked => "closures_appending_markers",
        Appends::Bare => "closures_appending_the_bare_replacement",
        Appends::Nothing => "closures_appending_nothing",
    });
    // --- replace_all_with_bytes (closure; may stop early)
    {
        let exp = splice_bytes(hay, &ms, &c.repl, c.stop_at, how);
        let mut calls: Vec<(M, Vec<u8>)> = vec![];
        let got = guard(|| {
            let mut dst = b"PRE|".to_vec();
            let mut k = 0usize;
            let r = on!(a => a.try_replace_all_with_bytes(hay, &mut dst, |m, bytes, dst| {
                calls.push((crate::cfg::mm(*m), bytes.to_vec()));
                if how == Appends::Marked {
                    dst.extend_from_slice(format!("<{}:", k).as_bytes());
                }
                if how != Appends::Nothing {
                    dst.extend_from_slice(c.repl[m.pattern().as_usize()].as_bytes());
                }
                if how == Appends::Marked {
                    dst.push(b'>');
                }
                let go = c.stop_at != Some(k);
                k += 1;
                go
            }).map_err(|e| e.to_string()));
            r.map(|_| dst)
        });
        rep.eval();
        match got {
            Err(p) => vio(rep, "replace_all_with_bytes", "panic", format!("panicked: {}", p)),
            Ok(Err(e)) => vio(rep, "replace_all_with_bytes", "error", e),
            Ok(Ok(g)) => {
                let mut want = b"PRE|".to_vec();
                want.extend_from_slice(&exp);
                let ncalls = match c.stop_at {
                    Some(k) if k < ms.len() => k + 1,
                    _ => ms.len(),
                };
                if calls.len() != ncalls || calls.iter().zip(ms.iter()).any(|(c, m)| c.0 != *m) {
                    vio(rep, "replace_all_with_bytes", "closure_matches", format!("closure saw {:?}, find_iter yields {:?} (stop_at {:?})", calls.iter().map(|c| c.0).collect::<Vec<_>>(), ms, c.stop_at));
                } else if let Some((m, b)) = calls.iter().find(|(m, b)| &hay[m.1..m.2] != &b[..]) {
                    vio(rep, "replace_all_with_bytes", "closure_bytes", format!("closure got {:?} for match {:?}", show(b), m));
                } else if g != want {
                    vio(rep, "replace_all_with_bytes", "output", format!("got {:?}, expected {:?}", show(&g), show(&want)));
                }
                if c.stop_at.map_or(false, |k| k < ms.len()) {
                    rep.tally("closure_stopped_early");
                    let k = c.stop_at.unwrap();
                    if how == Appends::Nothing || (how == Appends::Bare && c.repl[ms[k].0].is_empty()) {
                        rep.tally("closure_stopped_without_appending");
                    }
                }
            }
        }
    }
    // --- replace_all_with (&str closure)
    {
        let exp = splice_bytes(hay, &str_ms, &c.repl, c.stop_at, how);
        let mut calls: Vec<(M, String)> = vec![];
        let got = guard(|| {
            let mut dst = String::from("PRE|");
            let mut k = 0usize;
            let r = on!(a => a.try_replace_all_with(&c.hay, &mut dst, |m, text, dst| {
                calls.push((crate::cfg::mm(*m), text.to_string()));
                if how == Appends::Marked {
                    dst.push_str(&format!("<{}:", k));
                }
                if how != Appends::Nothing {
                    dst.push_str(&c.repl[m.pattern().as_usize()]);
                }
                if how == Appends::Marked {
                    dst.push('>');
                }
                let go = c.stop_at != Some(k);
                k += 1;
                go
            }).map_err(|e| e.to_string()));
            r.map(|_| dst)
        });
        rep.eval();
        match got {
            Err(p) => vio(rep, "replace_all_with", "panic", format!("panicked: {}", p)),
            Ok(Err(e)) => vio(rep, "replace_all_with", "error", e),
            Ok(Ok(g)) => {
                let mut want = b"PRE|".to_vec();
                want.extend_from_slice(&exp);
                let ncalls = match c.stop_at {
                    Some(k) if k < str_ms.len() => k + 1,
                    _ => str_ms.len(),
                };
                if calls.len() != ncalls || calls.iter().zip(str_ms.iter()).any(|(c, m)| c.0 != *m) {
                    vio(rep, "replace_all_with", "closure_matches", format!("closure saw {:?}, char-boundary matches of find_iter are {:?} (stop_at {:?})", calls.iter().map(|c| c.0).collect::<Vec<_>>(), str_ms, c.stop_at));
                } else if let Some((m, t)) = calls.iter().find(|(m, t)| &hay[m.1..m.2] != t.as_bytes()) {
                    vio(rep, "replace_all_with", "closure_text", format!("closure got {:?} for match {:?}", t, m));
                } else if g.as_bytes() != &want[..] {
                    vio(rep, "replace_all_with", "output", format!("got {:?}, expected {:?}", g, String::from_utf8_lossy(&want)));
                }
            }
        }
    }
    if c.hay.len() >= 1024 {
        rep.tally("haystacks_of_1_kib_or_more");
    }
    if rep.want_sample() && str_ms.len() < ms.len() && ms.len() >= 2 && c.hay.len() < 60 {
        rep.sample(
            J::obj()
                .with("patterns", pats_show(&c.pats))
                .with("cfg", J::s(&c.cfg.label()))
                .with("haystack", J::Str(c.hay.clone()))
                .with("find_iter_matches", ms_json(&ms))
                .with("char_boundary_matches", ms_json(&str_ms))
                .with("replacements", J::Arr(c.repl.iter().map(|r| J::Str(r.clone())).collect())),
        );
    }
}

pub fn gen_repl_case(rng: &mut Rng) -> ReplCase {
    let alpha = utf8_alphabet(rng);
    // mostly short; one case in 25 has a haystack of 1000..4000 characters
    // (implementations may switch strategy for long inputs)
    let hlen = if rng.chance(1, 25) { rng.range(1000, 4000) } else { rng.range(0, 14) };
    let mut hay = String::new();
    for _ in 0..hlen {
        hay.push_str(*rng.pick(&alpha));
    }
    let hb = hay.as_bytes();
    // byte patterns: whole characters, partial code points, straddling slices
    let np = rng.range(1, 5);
    let mut pats: Vec<Vec<u8>> = vec![];
    for _ in 0..np {
        let p = match rng.below(6) {
            0 => rng.pick(&alpha).as_bytes().to_vec(),
            1 => {
                let c = rng.pick(&alpha).as_bytes();
                c[..rng.range(1, c.len())].to_vec() // prefix of a code point
            }
            2 => {
                let c = rng.pick(&alpha).as_bytes();
                c[rng.below(c.len())..].to_vec() // suffix of a code point
            }
            3 if hb.len() >= 2 => {
                let a = rng.below(hb.len() - 1);
                let b = rng.range(a + 1, (a + 5).min(hb.len()));
                hb[a..b].to_vec() // arbitrary byte slice of the haystack
            }
            4 => {
                let mut s = String::new();
                for _ in 0..rng.range(1, 3) {
                    s.push_str(*rng.pick(&alpha));
                }
                s.into_bytes()
            }
            _ => vec![],
        };
        pats.push(p);
    }
    if !rng.chance(1, 5) {
        pats.retain(|p| !p.is_empty());
        if pats.is_empty() {
            pats.push(rng.pick(&alpha).as_bytes().to_vec());
        }
    }
    let kind = *rng.pick(&Kind::ALL);
    let cfg = sem::rand_cfg(rng, kind, false, false);
    let repl: Vec<String> = (0..pats.len())
        .map(|i| match rng.below(4) {
            0 => String::new(),
            1 => format!("[{}]", i),
            2 => "ü€".to_string(),
            _ => "x".repeat(rng.range(1, 5)),
        })
        .collect();
    let stop_at = if rng.chance(1, 3) { Some(rng.below(4)) } else { None };
    ReplCase { pats, cfg, hay, repl, stop_at }
}

pub fn run_c12(ctx: &Ctx, rep: &mut Report) {
    let n = ctx.tier.pick(40, 20_000, 4_000_000);
    let mut root = Rng::new(ctx.seed).fork(0xC12 + ctx.shard as u64);
    for i in 0..n {
        let mut rng = root.fork(i as u64);
        let c = gen_repl_case(&mut rng);
        let s = match build_or_report(rep, &c.cfg, &c.pats) {
            Some(s) => s,
            None => continue,
        };
        c12_check_one(rep, &c, &s);
    }
    rep.tally_n("replace_cases", n as u64);
}

pub fn replay_c12(case: &J, rep: &mut Report) -> Result<(), String> {
    let c = ReplCase::from_json(case)?;
    let s = c.cfg.build(&c.pats)?;
    c12_check_one(rep, &c, &s);
    Ok(())
}
