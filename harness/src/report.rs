//! Per-run accounting: evaluations, distinct non-trivial cases, tallies,
//! literal samples and violations (each with a replayable case).

use std::collections::{BTreeMap, HashSet};

use crate::util::{hex, J};

#[derive(Clone, Copy, Debug, PartialEq, Eq)]
pub enum Tier {
    Quick,
    Thorough,
    /// tiny workloads, used when running under Miri / valgrind
    Tiny,
}

impl Tier {
    pub fn name(self) -> &'static str {
        match self {
            Tier::Quick => "quick",
            Tier::Thorough => "thorough",
            Tier::Tiny => "tiny",
        }
    }
    /// pick by tier
    pub fn pick<T: Copy>(self, tiny: T, quick: T, thorough: T) -> T {
        match self {
            Tier::Tiny => tiny,
            Tier::Quick => quick,
            Tier::Thorough => thorough,
        }
    }
}

#[derive(Clone, Debug)]
pub struct Ctx {
    pub tier: Tier,
    pub seed: u64,
    pub shard: usize,
    pub nshards: usize,
    /// free-form stage selector (e.g. "miri", "guard", "asan")
    pub stage: String,
}

impl Ctx {
    /// Is item `i` of a partitioned enumeration owned by this shard?
    pub fn mine(&self, i: usize) -> bool {
        i % self.nshards == self.shard
    }
}

/// Bumped on every evaluation; a watchdog thread in the binary uses it to
/// tell a stalled (possibly non-terminating) shard from a slow one.
pub static PROGRESS: std::sync::atomic::AtomicU64 = std::sync::atomic::AtomicU64::new(0);

const MAX_DISTINCT: usize = 3_000_000;
const MAX_SAMPLES: usize = 6;
const MAX_VIOLATIONS: usize = 12;

pub struct Violation {
    pub property: String,
    pub signature: String,
    pub detail: String,
    pub case: J,
}

pub struct Report {
    pub property: String,
    pub evaluations: u64,
    distinct: HashSet<u64>,
    distinct_overflow: bool,
    pub tallies: BTreeMap<String, u64>,
    pub samples: Vec<J>,
    pub violations: Vec<Violation>,
    pub violation_count: u64,
    /// every violation's signature with its count (not capped)
    pub violation_sigs: BTreeMap<String, u64>,
    pub inconclusive: Vec<String>,
    /// number of calls that panicked (every monitor counts them as violations)
    pub panics: u64,
}

impl Report {
    pub fn new(property: &str) -> Report {
        Report {
            property: property.to_string(),
            evaluations: 0,
            distinct: HashSet::new(),
            distinct_overflow: false,
            tallies: BTreeMap::new(),
            samples: vec![],
            violations: vec![],
            violation_count: 0,
            violation_sigs: BTreeMap::new(),
            inconclusive: vec![],
            panics: 0,
        }
    }

    #[inline]
    pub fn eval(&mut self) {
        self.evaluations += 1;
        PROGRESS.fetch_add(1, std::sync::atomic::Ordering::Relaxed);
    }

    #[inline]
    pub fn evals(&mut self, n: u64) {
        self.evaluations += n;
        PROGRESS.fetch_add(n.max(1), std::sync::atomic::Ordering::Relaxed);
    }

    /// Record a distinct non-trivial case by hash.
    #[inline]
    pub fn nontrivial(&mut self, h: u64) {
        if self.distinct.len() < MAX_DISTINCT {
            self.distinct.insert(h);
        } else {
            self.distinct_overflow = true;
        }
    }

    #[inline]
    pub fn tally(&mut self, k: &str) {
        self.tally_n(k, 1);
    }

    #[inline]
    pub fn tally_n(&mut self, k: &str, n: u64) {
        if let Some(v) = self.tallies.get_mut(k) {
            *v += n;
        } else {
            self.tallies.insert(k.to_string(), n);
        }
    }

    pub fn want_sample(&self) -> bool {
        self.samples.len() < MAX_SAMPLES
    }

    pub fn sample(&mut self, j: J) {
        if self.samples.len() < MAX_SAMPLES {
            self.samples.push(j);
        }
    }

    pub fn violation(&mut self, signature: &str, detail: String, case: J) {
        self.violation_count += 1;
        *self.violation_sigs.entry(signature.to_string()).or_insert(0) += 1;
        // keep at most a few per signature and overall
        let same = self
            .violations
            .iter()
            .filter(|v| v.signature == signature)
            .count();
        // always keep the first witness of a new signature (up to a larger
        // cap), and a few more of the same signature while there is room
        let keep = if same == 0 {
            self.violations.len() < 4 * MAX_VIOLATIONS
        } else {
            self.violations.len() < MAX_VIOLATIONS && same < 3
        };
        if keep {
            self.violations.push(Violation {
                property: self.property.clone(),
                signature: signature.to_string(),
                detail,
                case,
            });
        }
    }

    pub fn inconclusive(&mut self, why: String) {
        if self.inconclusive.len() < 20 {
            self.inconclusive.push(why);
        }
    }

    pub fn distinct_len(&self) -> usize {
        self.distinct.len()
    }

    /// Dump the distinct-case hashes (little-endian u64s) so that the driver
    /// can compute the exact union over all shards.
    pub fn write_hashes(&self, path: &str) -> std::io::Result<()> {
        let mut buf = Vec::with_capacity(self.distinct.len() * 8);
        for h in &self.distinct {
            buf.extend_from_slice(&h.to_le_bytes());
        }
        std::fs::write(path, buf)
    }

    pub fn to_json(&self) -> J {
        let mut t = J::obj();
        for (k, v) in &self.tallies {
            t.set(k, J::u(*v));
        }
        let mut viol = vec![];
        for v in &self.violations {
            viol.push(
                J::obj()
                    .with("property", J::s(&v.property))
                    .with("signature", J::s(&v.signature))
                    .with("detail", J::s(&v.detail))
                    .with("case", v.case.clone()),
            );
        }
        J::obj()
            .with("property", J::s(&self.property))
            .with("evaluations", J::u(self.evaluations))
            .with("distinct_nontrivial", J::i(self.distinct.len()))
            .with("distinct_overflow", J::Bool(self.distinct_overflow))
            .with("tallies", t)
            .with("samples", J::Arr(self.samples.clone()))
            .with("violations", J::Arr(viol))
            .with("violation_count", J::u(self.violation_count))
            .with("violation_sigs", {
                let mut o = J::obj();
                for (k, v) in &self.violation_sigs {
                    o.set(k, J::u(*v));
                }
                o
            })
            .with("panics", J::u(self.panics))
            .with(
                "inconclusive",
                J::Arr(self.inconclusive.iter().map(|s| J::s(s)).collect()),
            )
    }
}

pub fn pats_json(pats: &[Vec<u8>]) -> J {
    J::Arr(pats.iter().map(|p| J::Str(hex(p))).collect())
}

pub fn pats_from_json(j: &J) -> Result<Vec<Vec<u8>>, String> {
    let a = j.as_arr().ok_or("patterns not an array")?;
    let mut v = vec![];
    for x in a {
        v.push(crate::util::unhex(x.as_str().ok_or("pattern not a string")?)?);
    }
    Ok(v)
}

pub fn pats_show(pats: &[Vec<u8>]) -> J {
    J::Arr(pats.iter().map(|p| J::Str(crate::util::show(p))).collect())
}

pub fn m_json(m: (usize, usize, usize)) -> J {
    J::Arr(vec![J::i(m.0), J::i(m.1), J::i(m.2)])
}

pub fn ms_json(ms: &[(usize, usize, usize)]) -> J {
    J::Arr(ms.iter().map(|&m| m_json(m)).collect())
}

pub fn om_json(m: Option<(usize, usize, usize)>) -> J {
    match m {
        None => J::Null,
        Some(m) => m_json(m),
    }
}
