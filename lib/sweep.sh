#!/bin/bash
# usage: lib/sweep.sh <tier> <seed>...   runs every check once per seed on the current tree; prints one line each.
cd /verif
tier="$1"; shift
for seed in "$@"; do
  for i in $(seq -w 1 20); do
    id=C$i
    t0=$(date +%s)
    out=$(VERIF_SEED=$seed ./check $id $tier 2>&1); rc=$?
    t1=$(date +%s)
    echo "seed=$seed $id $tier exit=$rc $((t1-t0))s $(echo "$out" | grep -E "^INCONCLUSIVE|^VIOLATION|witness" | head -3 | tr '\n' ' ' | cut -c1-300)"
  done
done
