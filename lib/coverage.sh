#!/bin/bash
# Developer tool: line/region coverage of /repo/src reached by shard 0 of every check's native stage (quick tier).
# Uses the nightly toolchain's llvm tools. Output: .build/coverage/report.txt
set -u
cd /verif/harness
BIN=$(rustc +nightly --print sysroot)/lib/rustlib/x86_64-unknown-linux-gnu/bin
OUT=/verif/.build/coverage; rm -rf $OUT/prof; mkdir -p $OUT/prof
export CARGO_NET_OFFLINE=true
RUSTFLAGS="--cfg aho_corasick_verif --check-cfg cfg(aho_corasick_verif) -Cinstrument-coverage" CARGO_TARGET_DIR=$OUT/target \
  cargo +nightly build --release --offline 2>&1 | tail -1
exe=$OUT/target/release/acmon
for id in C01 C02 C03 C04 C05 C06 C07 C08 C09 C10 C11 C12 C13 C14 C16 C18 C19 C20; do
  LLVM_PROFILE_FILE=$OUT/prof/$id.profraw $exe run $id --tier quick --seed 1 --shard 0/16 --out $OUT/$id.json >/dev/null 2>&1 &
done
LLVM_PROFILE_FILE=$OUT/prof/C15.profraw $exe run C15 --tier quick --seed 1 --shard 0/16 --stage guard --out $OUT/C15.json >/dev/null 2>&1 &
LLVM_PROFILE_FILE=$OUT/prof/C17.profraw $exe run C17 --tier quick --seed 1 --shard 0/2 --stage threads --out $OUT/C17.json >/dev/null 2>&1 &
wait
$BIN/llvm-profdata merge -sparse $OUT/prof/*.profraw -o $OUT/all.profdata
$BIN/llvm-cov report $exe -instr-profile=$OUT/all.profdata --ignore-filename-regex='(harness|registry|rustc|library)' > $OUT/report.txt 2>&1
$BIN/llvm-cov show $exe -instr-profile=$OUT/all.profdata --ignore-filename-regex='(harness|registry|rustc|library)' --show-line-counts-or-regions --format=text > $OUT/show.txt 2>&1
cat $OUT/report.txt
