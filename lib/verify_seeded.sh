#!/bin/bash
# usage: lib/verify_seeded.sh <ID> [<name>]
# Step 1 of accepting a sub-agent's seeded change: in its scratch worktree /tmp/wt/<ID>, starting from a clean
# checkout, confirm that (a) the patch applies and builds, (b) the crate's own 163 tests pass with it,
# (c) the demonstration fails with it and (d) passes without it. On success the deliverables are copied to
# /verif/seeded/<name>/ (name defaults to ID).
set -u
id="$1"; name="${2:-$1}"; wt=${WT:-/tmp/wt}/$id; sd=$wt/_seeded
export CARGO_NET_OFFLINE=true
[ -f $sd/patch.diff ] && [ -f $sd/demo.rs ] || { echo "missing deliverables in $sd"; exit 2; }
cd $wt || exit 2
git checkout -q -- . ; rm -f examples/demo.rs
git apply --check $sd/patch.diff || { echo "patch does not apply to a clean checkout"; exit 1; }
if git apply --numstat $sd/patch.diff | awk '{print $3}' | grep -qv '^src/'; then echo "patch touches files outside src/"; exit 1; fi
if grep -q "^[-+].*aho_corasick_verif\|src/verif.rs\|src/tests.rs\|src/packed/tests.rs" $sd/patch.diff; then echo "patch touches hooks or tests"; exit 1; fi
git apply $sd/patch.diff
suite=$(cargo test --lib --offline 2>&1 | grep "^test result")
echo "with change, repo suite: $suite"
echo "$suite" | grep -q "163 passed; 0 failed" || { echo "suite does not pass with the change"; git checkout -q -- .; exit 1; }
doc=$(cargo test --doc --offline 2>&1 | grep "^test result" | tail -1)
echo "with change, doc tests: $doc"
mkdir -p examples; cp $sd/demo.rs examples/demo.rs
cargo run --offline --example demo > ${WT:-/tmp/wt}/$id.demo_with.log 2>&1; rc_with=$?
git apply -R $sd/patch.diff
cargo run --offline --example demo > ${WT:-/tmp/wt}/$id.demo_without.log 2>&1; rc_without=$?
rm -f examples/demo.rs; rmdir examples 2>/dev/null
echo "demo with change: exit $rc_with; without: exit $rc_without"
if [ $rc_with -ne 0 ] && [ $rc_without -eq 0 ]; then
  mkdir -p /verif/seeded/$name
  cp $sd/patch.diff $sd/demo.rs /verif/seeded/$name/
  [ -f $sd/notes.md ] && cp $sd/notes.md /verif/seeded/$name/agent_notes.md
  cat > /verif/seeded/$name/verify.txt <<EOT
verified $(date -u +%Y-%m-%dT%H:%M:%SZ) in scratch worktree ${WT:-/tmp/wt}/$id (clean checkout of /repo HEAD $(git -C /repo rev-parse --short HEAD)):
  git apply patch.diff                      -> ok (src/ only, no hooks, no tests)
  cargo test --lib --offline                -> $suite
  cargo test --doc --offline                -> $doc
  cargo run --offline --example demo        -> exit $rc_with   (with the change)
  git apply -R patch.diff; same demo        -> exit $rc_without (without the change)
EOT
  echo "ACCEPTED -> /verif/seeded/$name"
else
  echo "REJECTED: demonstration does not discriminate"; tail -5 ${WT:-/tmp/wt}/$id.demo_with.log; exit 1
fi
