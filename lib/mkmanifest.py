#!/usr/bin/env python3
"""Regenerate MANIFEST.json from lib/props.py (single source of truth)."""
import json, os, subprocess, sys
VERIF = os.path.dirname(os.path.dirname(os.path.abspath(__file__)))
sys.path.insert(0, os.path.join(VERIF, "lib"))
from props import PROPS, MANIFEST_TEXT

ALL = ["C%02d" % i for i in range(1, 21)]

def repo_commits():
    out = subprocess.run(["git", "-C", "/repo", "log", "--format=%H %s"], stdout=subprocess.PIPE, text=True).stdout
    hooks = [l.split()[0] for l in out.splitlines() if " verif hooks" in l]
    return hooks

checks = []
for pid in ALL:
    if pid not in PROPS:
        continue
    t = MANIFEST_TEXT[pid]
    checks.append({
        "property_id": pid,
        "quick_cmd": "./check %s quick" % pid,
        "thorough_cmd": "./check %s thorough" % pid,
        "evidence_file": "/verif/evidence/%s.json" % pid,
        "replay_cmd_template": "./check %s --replay {path}" % pid,
        "engine": "acmon",
        "level_claimed": {
            "category": PROPS[pid]["level"],
            "text": t["level_text"],
            "design_ref": PROPS[pid]["design_ref"],
        },
        "level_note": t["level_note"],
        "technique": t["technique"],
    })

na = [{"property_id": p, "reason": "check not built yet (work in progress; will be claimed once its monitor exists)"}
      for p in ALL if p not in PROPS]

m = {
    "version": 1,
    "setup_cmd": "./check --setup",
    "hooks": {
        "guard": "aho_corasick_verif",
        "enable": "RUSTFLAGS='--cfg aho_corasick_verif' (set by ./check for every harness build; the harness crate depends on /repo by path)",
        "baseline_off_cmd": "cd /repo && cargo test --workspace --no-fail-fast --offline",
        "source_commits": repo_commits(),
        "add_only": True,
    },
    "engines": [{
        "name": "acmon",
        "path": "/verif/harness",
        "serves_properties": [c["property_id"] for c in checks],
        "kind_free_text": "Rust harness linking the real crate (hooks on): seeded/enumerated workloads, reference-model "
                          "oracles, invariant walks over live automata, I/O event-log checkers; run natively in 16 "
                          "sharded child processes and under Miri / ASan / TSan / guard pages; driven by ./check (python3)",
    }],
    "checks": checks,
    "not_applicable": na,
    "notes": "Technique family: runtime monitoring and sanitizers. Exit 0 = held on everything observed, 1 = violation "
             "(VIOLATION line + replay file), 2 = inconclusive (build failure, watchdog, coverage floor missed). "
             "known_findings.txt lists the six genuine defects found on the pinned tree, all repaired by 'fix:' commits in /repo.",
}
if not na:
    m["not_applicable"] = []
json.dump(m, open(os.path.join(VERIF, "MANIFEST.json"), "w"), indent=1)
print("MANIFEST.json: %d checks, %d not_applicable" % (len(checks), len(na)))
