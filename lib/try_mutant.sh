#!/bin/bash
# usage: lib/try_mutant.sh <patch.diff> <tier> <ID> [<ID>...]
# Applies a patch to /repo's working tree, optionally runs the repo's own suite
# (TESTS=1), runs the given checks, and ALWAYS restores /repo afterwards.
set -u
patch="$1"; tier="$2"; shift 2
cd /repo || exit 2
if ! git diff --quiet; then echo "/repo working tree is dirty; refusing"; exit 2; fi
trap 'git -C /repo checkout -- . ; echo "[/repo restored]"' EXIT
git apply "$patch" || { echo "patch does not apply"; exit 2; }
if [ "${TESTS:-0}" = "1" ]; then
  (cd /repo && cargo test --lib --offline 2>&1 | grep "test result")
fi
cd /verif
for id in "$@"; do
  out=$(./check "$id" "$tier" 2>&1); rc=$?
  echo "== $id $tier -> exit $rc"
  echo "$out" | grep -E "^VIOLATION|witness|INCONCLUSIVE|HELD|KNOWN" | cut -c1-400 | head -8
done
