#!/bin/bash
# usage: lib/regress_seeded.sh [name...]
# Re-runs, for every seeded change (or the named ones), the quick tier of its target check with the change applied to
# /repo's working tree, and writes one line per change to seeded/REGRESSION.txt. /repo is restored after every run.
# Sequential; needs /repo clean and nobody else using it (no sweep, no other run_seeded).
cd /verif
# REGRESS_REPO=<worktree of /repo> runs against that checkout (driver's VERIF_REPO override) and leaves /repo alone.
R=${REGRESS_REPO:-/repo}
[ "$R" != /repo ] && export VERIF_REPO=$R
out=seeded/REGRESSION.txt
names=("$@")
if [ ${#names[@]} -eq 0 ]; then names=($(ls seeded | grep -v REGRESSION)); : > $out; else for n in "${names[@]}"; do sed -i "/^$n /d" $out; done; fi
if ! git -C $R diff --quiet; then echo "$R working tree is dirty; refusing"; exit 2; fi
for name in "${names[@]}"; do
  d=seeded/$name
  [ -f $d/patch.diff ] || continue
  prop=$(jq -r .property $d/meta.json 2>/dev/null)
  note=$(jq -r '.history // ""' $d/meta.json | grep -o "NOT A VIOLATION[^,;:]*" | head -1)
  if ! git -C $R apply --check /verif/$d/patch.diff 2>/dev/null; then
    if git -C $R apply --3way /verif/$d/patch.diff >/dev/null 2>&1; then
      git -C $R reset -q
    else
      git -C $R reset -q --hard
      echo "$name $prop SKIPPED (patch against 8654bb4 does not apply to the current head)" | tee -a $out; continue
    fi
  else
    git -C $R apply /verif/$d/patch.diff
  fi
  t0=$(date +%s)
  res=$(./check $prop quick 2>&1); rc=$?
  t1=$(date +%s)
  git -C $R reset -q --hard
  sig=$(echo "$res" | grep -m1 "witness \[" | sed 's/^ *witness \[\([^]]*\)\].*/\1/')
  echo "$name $prop exit=$rc $((t1-t0))s ${sig:-none} $note" | tee -a $out
done
rm -f /verif/replay/*.json
git -C $R status --short | head -3
