#!/bin/bash
# usage: lib/run_benign.sh <name> [<ID>...]
# False-alarm test: applies benign/<name>/patch.diff (a change under which every property still holds) to /repo's
# working tree, runs the quick tier of all (or the given) checks, ALWAYS restores /repo, and appends one line per
# check to benign/<name>/checks.txt. Any exit 1 is a false alarm of the framework (or the change is not benign after
# all - to be decided by reading the witness).
set -u
name="$1"; shift
cd /verif
p=/verif/benign/$name/patch.diff
[ -f $p ] || { echo "no $p"; exit 2; }
# BENIGN_REPO=<worktree of /repo> runs against that checkout instead (through the driver's VERIF_REPO override), so that
# /repo itself stays free for other runs.
R=${BENIGN_REPO:-/repo}
if ! git -C $R diff --quiet; then echo "$R working tree is dirty; refusing"; exit 2; fi
trap 'git -C $R checkout -- . ; echo "[$R restored]"' EXIT
git -C $R apply $p || { echo "patch does not apply"; exit 2; }
[ "$R" != /repo ] && export VERIF_REPO=$R
ids=("$@"); [ ${#ids[@]} -eq 0 ] && ids=(C01 C02 C03 C04 C05 C06 C07 C08 C09 C10 C11 C12 C13 C14 C16 C18 C20 C19 C17 C15)
for id in "${ids[@]}"; do
  t0=$(date +%s)
  out=$(./check "$id" quick 2>&1); rc=$?
  t1=$(date +%s)
  first=$(echo "$out" | grep -m1 -E "witness \[|^INCONCLUSIVE" | cut -c1-400)
  echo "$(date -u +%FT%TZ) ./check $id quick with benign/$name applied -> exit $rc in $((t1-t0))s ${first}" | tee -a /verif/benign/$name/checks.txt
done
rm -f /verif/replay/*.json
