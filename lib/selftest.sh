#!/bin/bash
# usage: lib/selftest.sh [name-prefix]
# For every self-made mutant (selftest/*.diff): apply to /repo's working tree, run the repo's own suite (guard off),
# run the checks expected to detect it (quick tier), restore /repo. Writes selftest/RESULTS.md.
set -u
cd /verif
pre="${1:-}"
if ! git -C /repo diff --quiet; then echo "/repo working tree is dirty; refusing"; exit 2; fi
trap 'git -C /repo checkout -- . ; echo "[/repo restored]"' EXIT
res=selftest/RESULTS.md
[ -z "$pre" ] && { echo "# Self-made mutants vs. checks (quick tier)"; echo; echo "| mutant | repo suite (163) | check results |"; echo "|---|---|---|"; } > $res
for name in $(jq -r '.[].name' selftest/index.json); do
  case "$name" in "$pre"*) ;; *) continue;; esac
  checks=$(jq -r ".[] | select(.name==\"$name\") | .expected_checks | join(\" \")" selftest/index.json)
  git -C /repo apply /verif/selftest/$name.diff || { echo "| $name | PATCH FAILED | |" >> $res; continue; }
  suite=$(cd /repo && cargo test --lib --offline 2>&1 | grep "^test result" | sed 's/test result: //; s/; 0 ignored.*//')
  [ -z "$suite" ] && suite="did not build/run"
  line=""
  for id in $checks; do
    out=$(./check $id quick 2>&1); rc=$?
    sig=$(echo "$out" | grep -m1 "witness" | sed 's/^ *witness \[\([^]]*\)\].*/\1/' | cut -c1-70)
    line="$line $id=exit$rc${sig:+ ($sig)};"
  done
  echo "| $name | $suite |$line |" | tee -a $res
  git -C /repo checkout -- .
done
rm -f replay/*.json
