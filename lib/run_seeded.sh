#!/bin/bash
# usage: lib/run_seeded.sh <name> <tier> <ID> [<ID>...]
# Step 2 of accepting a seeded change: apply seeded/<name>/patch.diff to /repo's working tree, run the given checks,
# ALWAYS restore /repo, and append the outcome to seeded/<name>/checks.txt.
set -u
name="$1"; tier="$2"; shift 2
cd /verif
p=/verif/seeded/$name/patch.diff
[ -f $p ] || { echo "no $p"; exit 2; }
if ! git -C /repo diff --quiet; then echo "/repo working tree is dirty; refusing"; exit 2; fi
trap 'git -C /repo checkout -- . ; echo "[/repo restored]"' EXIT
git -C /repo apply $p || { echo "patch does not apply"; exit 2; }
for id in "$@"; do
  t0=$(date +%s)
  out=$(./check "$id" "$tier" 2>&1); rc=$?
  t1=$(date +%s)
  sigs=$(echo "$out" | grep "witness \[" | sed 's/^ *witness \[\([^]]*\)\].*/\1/' | sort -u | head -6 | tr '\n' ' ')
  first=$(echo "$out" | grep -m1 "witness \[" | cut -c1-500)
  echo "$(date -u +%FT%TZ) ./check $id $tier (seed ${VERIF_SEED:-1}) with seeded/$name applied -> exit $rc in $((t1-t0))s; signatures: ${sigs:-none}" | tee -a /verif/seeded/$name/checks.txt
  [ -n "$first" ] && echo "    $first" | tee -a /verif/seeded/$name/checks.txt
  echo "$out" | grep -E "^INCONCLUSIVE" | head -3 | tee -a /verif/seeded/$name/checks.txt
done
rm -f /verif/replay/*.json
