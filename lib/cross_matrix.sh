#!/bin/bash
# Runs, for every seeded change, the checks of related properties (quick tier) and appends the outcomes to
# seeded/<name>/checks.txt. Sequential: each run patches /repo's working tree and restores it.
cd /verif
run() { name=$1; shift; [ -d seeded/$name ] && lib/run_seeded.sh $name quick "$@" 2>&1 | grep -v restored | cut -c1-260; }
run C01 C05 C11 C14 C04
run C02 C03 C04 C01
run C03 C11 C04
run C04 C16 C01 C02
run C05 C11 C01
run C06 C05 C10 C15
run C07 C08 C18
run C08 C18 C07
run C09 C03
run C10 C05 C01
run C11 C05 C01
run C13 C03
run C14 C13 C10
run C15 C06
run C16 C04 C15
run C17 C05
run C18 C08
run C20 C13
