"""Per-property check specifications used by ./check.

Each entry: level, rule (how cases are generated and what counts as a distinct
non-trivial case), assumptions, stages per tier, coverage floors per tier
(a run below a floor is *inconclusive*), watchdog timeouts per tier.
"""

NATIVE = [{"kind": "native"}]

T_DEFAULT = {"quick": 900, "thorough": 6 * 3600}

COMMON_ASSUMPTIONS = [
    "the naive reference oracle in harness/src/oracle.rs (byte comparison, ~150 lines) is the specification",
    "x86-64 with SSSE3/AVX2; other targets (aarch64 NEON Teddy, big-endian) are not executed",
    "harness built in release mode from /repo's working tree with --cfg aho_corasick_verif (hooks do not change results)",
]

ENUM_RULE = (
    "small scope: every pattern LIST (order and duplicates matter, empty pattern included) of <=3 patterns of "
    "length <=2 (quick) / <=3 (thorough) over {a,b} x every haystack over {a,b} of length <=5 (quick) / <=6 (thorough) "
    "x all spans (a spread of spans for the longest haystacks) x a fixed set of 7-8 builder configurations covering "
    "all three automaton types through the top-level and the low-level API; plus seeded structured-random pattern "
    "lists (alphabets from letters in both cases, @ [ ` { , NUL, 0x80 0xC1 0xE1 0xFF; prefix/suffix/infix/duplicate/"
    "case-variant closure; empty pattern; occasionally 30-130 patterns or a 200-600 byte pattern) x random "
    "configurations (kind, start kind, dense depth, byte classes, prefilter, case-insensitivity) x pattern-derived "
    "haystacks x random spans. "
)

PROPS = {
    "C01": {
        "level": "exploration",
        "design_ref": "DESIGN.md section 5, C01",
        "rule": ENUM_RULE + "A case is (patterns, configuration, haystack, span); it is non-trivial when the "
                "definition yields at least one match; distinct by hash of the whole case.",
        "assumptions": COMMON_ASSUMPTIONS,
        "stages": {"quick": NATIVE, "thorough": NATIVE},
        "floors": {"quick": {"evaluations": 4_000_000, "distinct_nontrivial": 800_000,
                             "iter_with_2plus_matches": 300_000, "empty_match_first": 100_000},
                   "thorough": {"evaluations": 100_000_000, "distinct_nontrivial": 1_000_000}},
        "timeout": T_DEFAULT,
    },
    "C02": {
        "level": "exploration",
        "design_ref": "DESIGN.md section 5, C02",
        "rule": ENUM_RULE + "Standard match kind only. Non-trivial: the definition yields at least one match.",
        "assumptions": COMMON_ASSUMPTIONS,
        "stages": {"quick": NATIVE, "thorough": NATIVE},
        "floors": {"quick": {"evaluations": 2_000_000, "distinct_nontrivial": 400_000,
                             "iter_with_2plus_matches": 150_000},
                   "thorough": {"evaluations": 50_000_000, "distinct_nontrivial": 1_000_000}},
        "timeout": T_DEFAULT,
    },
    "C03": {
        "level": "exploration",
        "design_ref": "DESIGN.md section 5, C03",
        "rule": ENUM_RULE + "Standard match kind, unanchored. Each case drives one OverlappingState through "
                "len(expected)+8 calls (online monitor: call k must yield the k-th element of the sorted occurrence "
                "list, then None forever), clones the state at a pseudo-random call and requires the clone's "
                "continuation to agree, and drains the overlapping iterator. An evaluation is one monitored call. "
                "Non-trivial: at least one occurrence.",
        "assumptions": COMMON_ASSUMPTIONS,
        "stages": {"quick": NATIVE, "thorough": NATIVE},
        "floors": {"quick": {"evaluations": 10_000_000, "distinct_nontrivial": 400_000,
                             "several_matches_at_one_end": 200_000, "state_clones_checked": 500_000},
                   "thorough": {"evaluations": 200_000_000, "distinct_nontrivial": 1_000_000}},
        "timeout": T_DEFAULT,
    },
    "C09": {
        "level": "exploration",
        "design_ref": "DESIGN.md section 5, C09",
        "rule": ENUM_RULE + "All searches use Anchored::Yes on searchers built with StartKind::Anchored or Both "
                "(low-level NFAs support both modes natively): try_find, try_find_iter for all three match kinds, "
                "and stepwise overlapping search for standard. Non-trivial: at least one occurrence starts at the "
                "span start.",
        "assumptions": COMMON_ASSUMPTIONS,
        "stages": {"quick": NATIVE, "thorough": NATIVE},
        "floors": {"quick": {"evaluations": 10_000_000, "distinct_nontrivial": 1_000_000},
                   "thorough": {"evaluations": 200_000_000, "distinct_nontrivial": 1_000_000}},
        "timeout": T_DEFAULT,
    },
    "C13": {
        "level": "exploration",
        "design_ref": "DESIGN.md section 5, C13",
        "rule": "complete enumeration of match kind (3) x start kind (3) x requested anchoring (2) x automaton kind "
                "(auto + 3 explicit) x the 21 public search entry points of AhoCorasick, for 6 fixed pattern lists "
                "(no patterns, with/without the empty pattern, suffix-closed) plus seeded random lists, x several "
                "haystacks and spans (including the empty haystack and the start=end+1 span). Each call is "
                "classified accepted / error value / panic / late failure of a constructed iterator and compared "
                "with the predicate of the property. Every cell is counted as a distinct case.",
        "assumptions": COMMON_ASSUMPTIONS[1:] + [
            "readers/writers used for the stream entry points never fail, so any Err is a rejection"],
        "exhaustive": True,
        "exhaustive_note": "the configuration x API space is enumerated completely; pattern lists and haystacks are sampled",
        "stages": {"quick": NATIVE, "thorough": NATIVE},
        "floors": {"quick": {"evaluations": 200_000, "cells_expect_reject": 100_000, "cells_expect_accept": 80_000},
                   "thorough": {"evaluations": 5_000_000}},
        "timeout": T_DEFAULT,
    },
    "C14": {
        "level": "exploration",
        "design_ref": "DESIGN.md section 5, C14",
        "rule": ENUM_RULE + "All match kinds, anchored and unanchored. Per case: find.is_some() == an occurrence "
                "exists (oracle) == is_match (top-level searchers); earliest-mode result is a genuine occurrence in "
                "the span, starts at the span start when anchored, ends no later than the normal match of the same "
                "searcher, and is None iff the normal result is None. Non-trivial: an occurrence exists.",
        "assumptions": COMMON_ASSUMPTIONS,
        "stages": {"quick": NATIVE, "thorough": NATIVE},
        "floors": {"quick": {"evaluations": 5_000_000, "distinct_nontrivial": 1_000_000,
                             "is_match_true": 300_000, "is_match_false": 100_000,
                             "earliest_ended_before_normal": 50_000},
                   "thorough": {"evaluations": 100_000_000, "distinct_nontrivial": 1_000_000}},
        "timeout": T_DEFAULT,
    },
}

# Text for MANIFEST.json (level_claimed.text, level_note, technique) per property.
_ORACLE_NOTE = ("Trusted base: the naive byte-comparison oracle, the generators, rustc/std. Exploration only: "
                "holds on the executions observed (counts in the evidence file), not for all inputs.")

MANIFEST_TEXT = {
    "C01": {
        "level_text": "Exploration with a reference-model oracle: every try_find / try_find_iter result of the real "
                      "crate is compared with a quadratic definition-level oracle over an exhaustively enumerated small "
                      "scope (all pattern lists/haystacks/spans over {a,b}) and millions of seeded structured-random "
                      "cases across all automaton kinds and builder options. Right level because the property is a "
                      "pure input/output relation whose counterexamples are small (all found defects had <=3 patterns "
                      "of <=3 bytes).",
        "level_note": _ORACLE_NOTE,
        "technique": "runtime monitoring: differential oracle over enumerated + random executions",
    },
    "C02": {
        "level_text": "Same engine as C01 for MatchKind::Standard: earliest end, longest at that end, lowest index among "
                      "identical patterns; iterator with the empty-match rule.",
        "level_note": _ORACLE_NOTE,
        "technique": "runtime monitoring: differential oracle over enumerated + random executions",
    },
    "C03": {
        "level_text": "Online trace monitor over the call history of one OverlappingState: call k must return the k-th "
                      "element of the sorted occurrence list computed by the oracle, then None forever; clones of the "
                      "state must continue identically; the iterator must yield the same list. Small scope enumerated "
                      "exhaustively plus random cases.",
        "level_note": _ORACLE_NOTE,
        "technique": "runtime monitoring: online history checker against a sequential reference list",
    },
    "C09": {
        "level_text": "Reference-oracle comparison of anchored try_find, try_find_iter (all match kinds) and stepwise "
                      "overlapping search (standard) on searchers built with anchored/both start kinds, enumerated "
                      "small scope (suffix-closed sets arise by exhaustion) plus random cases.",
        "level_note": _ORACLE_NOTE,
        "technique": "runtime monitoring: differential oracle over enumerated + random executions",
    },
    "C13": {
        "level_text": "The configuration x API matrix is finite and is enumerated completely on every run: each of the "
                      "21 public search entry points is called and classified (accepted / error / panic / late failure) "
                      "and compared with the rejection predicate of the property; pattern lists and haystacks vary "
                      "to show independence from them.",
        "level_note": "Trusted base: the predicate transcribed from the property text, catch_unwind classification. "
                      "Pattern lists and haystacks are sampled, the configuration space is complete.",
        "technique": "runtime monitoring: exhaustive configuration-matrix execution with outcome classification",
    },
    "C14": {
        "level_text": "Relational monitor on the same searcher and input: is_match == find.is_some() == oracle existence; "
                      "earliest-mode result is a genuine occurrence, respects span/anchoring, ends no later than the "
                      "normal result and is None iff the normal result is None. Enumerated small scope + random cases, "
                      "all prefilter/automaton kinds.",
        "level_note": _ORACLE_NOTE,
        "technique": "runtime monitoring: relational (metamorphic) oracle over enumerated + random executions",
    },
}
