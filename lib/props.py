"""Per-property check specifications used by ./check.

Each entry: level, rule (how cases are generated and what counts as a distinct
non-trivial case), assumptions, stages per tier, coverage floors per tier
(a run below a floor is *inconclusive*), watchdog timeouts per tier.
"""

NATIVE = [{"kind": "native"}]
# the same workload once more in the overflow-checked build (debug assertions and integer-overflow checks on)
NATIVE_AND_CHECKED = [{"kind": "native"}, {"kind": "checked", "name": "checked"}]

T_DEFAULT = {"quick": 900, "thorough": 6 * 3600}

COMMON_ASSUMPTIONS = [
    "the naive reference oracle in harness/src/oracle.rs (byte comparison, ~150 lines) is the specification",
    "x86-64 with SSSE3/AVX2; other targets (aarch64 NEON Teddy, big-endian) are not executed",
    "harness built in release mode from /repo's working tree with --cfg aho_corasick_verif (hooks do not change results)",
]

ENUM_RULE = (
    "small scope: every pattern LIST (order and duplicates matter, empty pattern included) of <=3 patterns of "
    "length <=2 (quick) / <=3 (thorough) over {a,b} x every haystack over {a,b} of length <=5 (quick) / <=7 (thorough) "
    "x all spans (a spread of spans for the longest haystacks) x a fixed set of 7-8 builder configurations covering "
    "all three automaton types through the top-level and the low-level API; a second exhaustive scope over {a,A,b} "
    "(patterns of length <=2, lists of <=2 (quick) / <=3 (thorough) patterns, haystacks of length <=4 / <=5), each "
    "configuration built case-sensitive and case-insensitive; plus seeded structured-random pattern "
    "lists (alphabets from letters in both cases, @ [ ` { , NUL, 0x80 0xC1 0xE1 0xFF; prefix/suffix/infix/duplicate/"
    "case-variant closure; empty pattern; occasionally 30-130 patterns or a 200-600 byte pattern; every fourth list "
    "is aimed at a prefilter variant, with injected duplicates and sometimes grown to 21-64 patterns; one in 24 has "
    "120-200 patterns, around the packed searcher's limit of 128) x random "
    "configurations (kind, start kind, dense depth, byte classes, prefilter, case-insensitivity) x pattern-derived "
    "haystacks x random spans. "
)

PROPS = {
    "C01": {
        "level": "exploration",
        "design_ref": "DESIGN.md section 5, C01",
        "rule": ENUM_RULE + "A case is (patterns, configuration, haystack, span); it is non-trivial when the "
                "definition yields at least one match; distinct by hash of the whole case.",
        "assumptions": COMMON_ASSUMPTIONS,
        "stages": {"quick": NATIVE, "thorough": NATIVE},
        "floors": {"quick": {"accessor_cross_checks": 20_000_000, "iterator_method_cases": 500_000, "dense_dictionary_searches": 12, "long_haystacks": 5000, "long_haystacks_64k": 300, "evaluations": 4_000_000, "distinct_nontrivial": 800_000,
                             "iter_with_2plus_matches": 300_000, "empty_match_first": 100_000},
                   "thorough": {"evaluations": 100_000_000, "distinct_nontrivial": 1_000_000}},
        "timeout": T_DEFAULT,
    },
    "C02": {
        "level": "exploration",
        "design_ref": "DESIGN.md section 5, C02",
        "rule": ENUM_RULE + "Standard match kind only. Non-trivial: the definition yields at least one match.",
        "assumptions": COMMON_ASSUMPTIONS,
        "stages": {"quick": NATIVE, "thorough": NATIVE},
        "floors": {"quick": {"iterator_method_cases": 300_000, "dense_dictionary_searches": 12, "long_haystacks": 5000, "evaluations": 2_000_000, "distinct_nontrivial": 400_000,
                             "iter_with_2plus_matches": 150_000},
                   "thorough": {"evaluations": 50_000_000, "distinct_nontrivial": 1_000_000}},
        "timeout": T_DEFAULT,
    },
    "C03": {
        "level": "exploration",
        "design_ref": "DESIGN.md section 5, C03",
        "rule": ENUM_RULE + "Standard match kind, unanchored. Each case drives one OverlappingState through "
                "len(expected)+8 calls (online monitor: call k must yield the k-th element of the sorted occurrence "
                "list, then None forever), clones the state at a pseudo-random call and requires the clone's "
                "continuation to agree, and drains the overlapping iterator. An evaluation is one monitored call. "
                "Non-trivial: at least one occurrence.",
        "assumptions": COMMON_ASSUMPTIONS,
        "stages": {"quick": NATIVE, "thorough": NATIVE},
        "floors": {"quick": {"histories_with_a_rejected_request_interleaved": 300_000, "many_identifier_cases": 8, "long_haystacks": 3000, "evaluations": 10_000_000, "distinct_nontrivial": 400_000,
                             "several_matches_at_one_end": 200_000, "state_clones_checked": 500_000},
                   "thorough": {"evaluations": 200_000_000, "distinct_nontrivial": 1_000_000}},
        "timeout": T_DEFAULT,
    },
    "C09": {
        "level": "exploration",
        "design_ref": "DESIGN.md section 5, C09",
        "rule": ENUM_RULE + "All searches use Anchored::Yes on searchers built with StartKind::Anchored or Both "
                "(low-level NFAs support both modes natively): try_find, try_find_iter for all three match kinds, "
                "and stepwise overlapping search for standard. Non-trivial: at least one occurrence starts at the "
                "span start.",
        "assumptions": COMMON_ASSUMPTIONS,
        "stages": {"quick": NATIVE, "thorough": NATIVE},
        "floors": {"quick": {"iterator_method_cases": 900_000, "histories_with_a_rejected_request_interleaved": 300_000, "evaluations": 10_000_000, "distinct_nontrivial": 1_000_000},
                   "thorough": {"evaluations": 200_000_000, "distinct_nontrivial": 1_000_000}},
        "timeout": T_DEFAULT,
    },
    "C13": {
        "level": "exploration",
        "design_ref": "DESIGN.md section 5, C13",
        "rule": "complete enumeration of match kind (3) x start kind (3) x requested anchoring (2) x automaton kind "
                "(auto + 3 explicit) x the `earliest` input option (2, for entry points taking an Input) x the 21 public "
                "search entry points of AhoCorasick plus two call histories "
                "(find_overlapping / try_find_overlapping on an OverlappingState that accepted warm-up calls have "
                "already advanced), and the same matrix over the three low-level automaton types used directly through "
                "the Automaton trait (12 fallible entry points; the NFA types always have both start states, the DFA is "
                "built under each start kind), for 6 fixed pattern lists "
                "(no patterns, with/without the empty pattern, suffix-closed) plus seeded random lists, x several "
                "haystacks and spans (including the empty haystack and the start=end+1 span). Each call is "
                "classified accepted / error value / panic / late failure of a constructed iterator and compared "
                "with the predicate of the property. Every cell is counted as a distinct case.",
        "assumptions": COMMON_ASSUMPTIONS[1:] + [
            "readers/writers used for the stream entry points never fail, so any Err is a rejection",
            "the default-configuration searchers of every second list come from the option-less constructors "
            "(AhoCorasick::new, noncontiguous/contiguous NFA::new, DFA::new); "
            "the matrix runs twice: in the release build and in the overflow-checked build (stage 'checked': "
            "-C overflow-checks=on -C debug-assertions=on), where silently wrapping arithmetic panics"],
        "exhaustive": True,
        "exhaustive_note": "the configuration x API space is enumerated completely; pattern lists and haystacks are sampled",
        "stages": {"quick": NATIVE_AND_CHECKED, "thorough": NATIVE_AND_CHECKED},
        "floors": {"quick": {"searchers_from_option_less_constructors": 30, "evaluations": 300_000, "cells_expect_reject": 150_000, "cells_expect_accept": 100_000,
                             "cells_low_level_types": 2_000},
                   "thorough": {"evaluations": 5_000_000}},
        "timeout": T_DEFAULT,
    },
    "C14": {
        "level": "exploration",
        "design_ref": "DESIGN.md section 5, C14",
        "rule": ENUM_RULE + "All match kinds, anchored and unanchored. Per case: find.is_some() == an occurrence "
                "exists (oracle) == is_match (top-level searchers); earliest-mode result is a genuine occurrence in "
                "the span, starts at the span start when anchored, ends no later than the normal match of the same "
                "searcher, and is None iff the normal result is None. Non-trivial: an occurrence exists.",
        "assumptions": COMMON_ASSUMPTIONS,
        "stages": {"quick": NATIVE, "thorough": NATIVE},
        "floors": {"quick": {"evaluations": 5_000_000, "distinct_nontrivial": 1_000_000,
                             "is_match_true": 300_000, "is_match_false": 100_000,
                             "earliest_ended_before_normal": 50_000},
                   "thorough": {"evaluations": 100_000_000, "distinct_nontrivial": 1_000_000}},
        "timeout": T_DEFAULT,
    },
}

STREAM_RULE = (
    "seeded stream cases: structured-random non-empty pattern list (standard semantics, occasionally 30-130 patterns or "
    "one ~9 KiB pattern so that 8*max_pattern_len exceeds the default 64 KiB buffer) x random automaton configuration "
    "(all 7 ways of building a searcher) x pattern-derived stream x read-size schedule (single bytes, fill-the-buffer, "
    "pattern-length reads, mixed) x internal buffer capacity set through the hook to max_pattern_len + spare, spare in "
    "{1,2,3,5,8,64}; plus a few cases with the crate's default capacity on streams of 200 KiB+ (un-hooked path) and, "
    "on every run, one case per longest-pattern length in {8191, 8192, 8193, 16384, 32768, 65535, 65536, 65537, 100000, "
    "131072} at the default capacity (the capacity formula is 8*len vs 64 KiB); plus a 'prefilter x refill' family "
    "(pattern lists aimed at memmem / start-byte / rare-byte prefilters with patterns of different lengths, buffers "
    "of max_pattern_len + 64/100/257/1000/4096 bytes or the default, candidate-free runs of 0..700 bytes between "
    "occurrences and near misses, reads of 1..700 bytes). "
    "Reader and writer are instrumented and log every call. "
)

PROPS.update({
    "C04": {
        "level": "exploration",
        "design_ref": "DESIGN.md section 5, C04",
        "rule": "per pattern list (representation-stressing shapes: 1..256 children under one node around the sparse/"
                "dense switch, chains, all 256 start bytes, 99-102 patterns, a^k b families, plus structured-random "
                "lists; match kind cycles; case-insensitivity and prefilter random): (a) PRODUCT WALK of the reference "
                "(noncontiguous NFA, dense_depth 0) against 15 variants (noncontiguous dense_depth 1/3/100; contiguous "
                "dense_depth 0/2/100 x byte classes on/off; DFA x start kind x byte classes) from the anchored and the "
                "unanchored start states over all 256 bytes: every reachable state pair must agree on is_match and on "
                "the full ordered match list (pattern id, pattern length), and the variant may flag a start state only "
                "where the reference is in one; (b) END-TO-END differential of find / find_iter / earliest / overlapping "
                "(iterator and stepping) between top-level searchers (auto + 3 explicit kinds) and the 3 low-level types "
                "with random dense depth / byte classes / start kind on sampled haystacks and spans, anchored and "
                "unanchored. evaluations = product walks + end-to-end comparisons; states/transitions = reachable "
                "pairs / compared transitions. Non-trivial: a product with more than 3 pairs, or an end-to-end case "
                "with a match. Both parts run twice: in the release build and in the overflow-checked build with "
                "debug assertions (stage 'checked'), where a representation that the search loops' internal "
                "assertions reject shows as a panic on one side of the differential.",
        "assumptions": COMMON_ASSUMPTIONS[1:] + [
            "equal match observables on all reachable pairs imply equal results of every search loop because the loops "
            "consume only start_state/next_state/is_special/is_dead/is_match/match_len/match_pattern/pattern_len",
            "product walks are capped at 200000 pairs per variant (cap hits are counted; none on the pinned tree)"],
        "stages": {"quick": NATIVE_AND_CHECKED, "thorough": NATIVE_AND_CHECKED},
        "coverage_map": {"states": "product_pairs", "transitions": "product_transitions"},
        "floors": {"quick": {"conversion_routes_built": 300, "huge_automata_lists": 8, "product_transitions": 100_000_000, "product_pairs": 400_000,
                             "e2e_compared_top-auto": 5000, "e2e_compared_low-dfa": 5000,
                             "product_walks_low-dfa": 2000, "product_walks_low-cnfa": 2000,
                             "distinct_nontrivial": 20_000},
                   "thorough": {"product_transitions": 2_000_000_000, "distinct_nontrivial": 500_000}},
        "timeout": T_DEFAULT,
    },
    "C16": {
        "level": "exploration",
        "design_ref": "DESIGN.md section 5, C16",
        "rule": "per pattern list (same shapes as C04) x match kind x 21 low-level configurations (noncontiguous x dense "
                "depth; contiguous x dense depth x byte classes; DFA x start kind x byte classes; prefilter and case "
                "folding random): BFS from start_state(No) and start_state(Yes) through next_state for all 256 bytes "
                "and both anchoring arguments; at every reached state the contract of the property is asserted "
                "(exhaustive per automaton: states/transitions are reported); every second walk goes through the blanket "
                "`impl Automaton for &A` and also compares the metadata accessors through it. Then the search recipe from the "
                "Automaton trait documentation, transcribed into the harness, is run on sampled haystacks and compared "
                "with try_find. evaluations = automata walked + recipe comparisons. Non-trivial: an automaton with "
                "more than 3 reachable states, or a recipe comparison with a match.",
        "assumptions": COMMON_ASSUMPTIONS[1:] + ["pattern lists are sampled; the walk of each built automaton is complete"],
        "stages": {"quick": NATIVE, "thorough": NATIVE},
        "coverage_map": {"states": "states_walked", "transitions": "transitions_walked"},
        "floors": {"quick": {"transitions_walked": 500_000_000, "states_walked": 1_000_000,
                             "automata_walked_low-dfa": 5000, "automata_walked_low-cnfa": 5000,
                             "automata_walked_low-nnfa": 2500, "recipe_searches": 100_000,
                             "walks_through_reference_impl": 5000},
                   "thorough": {"transitions_walked": 10_000_000_000}},
        "timeout": T_DEFAULT,
    },
    "C05": {
        "level": "exploration",
        "design_ref": "DESIGN.md section 5, C05",
        "rule": "pattern lists aimed at each prefilter variant (single pattern; <=3 ASCII start bytes; shared rare bytes "
                "at different offsets; 3-16 patterns for packed; a >=256 byte pattern that must disable the rare-byte "
                "prefilter; case-insensitive versions) x 3 match kinds x random automaton kind/options, searcher built "
                "twice (prefilter on / off). Haystacks up to ~4 KiB and vector-shaped lengths with decoys (pattern bytes "
                "sprinkled everywhere, adjacent matches, truncated matches at the end) x spans. Compared: find, "
                "find_iter, earliest (found or not), overlapping iterator and stepping (standard), is_match. The variant "
                "in use is classified by the prefilter's behaviour on probe haystacks (no type names); "
                "'skipped_<variant>' counts cases where the hook "
                "counter shows fewer automaton transitions with the prefilter than without. Non-trivial: a prefilter is "
                "active and a match exists. One list in ten has one or two common start bytes with a rare byte of its "
                "own per pattern (the rare-byte analysis runs out of budget while a start-byte prefilter stays "
                "possible), and one list in six holds the empty pattern (last, first or anywhere), which rules a "
                "prefilter out.",
        "assumptions": COMMON_ASSUMPTIONS[1:] + [
            "which occurrence an earliest-mode search returns is not fixed by the semantics (a packed prefilter confirms "
            "the full leftmost match), so earliest is compared as found/not-found here; C14 checks its validity"],
        "stages": {"quick": NATIVE, "thorough": NATIVE},
        "floors": {"quick": {"lists_with_the_empty_pattern": 2000, "gap_cases": 60, "long_haystacks": 2000, "evaluations": 500_000, "distinct_nontrivial": 200_000,
                             "variant_Memmem": 30_000, "variant_StartBytesOne": 20_000, "variant_StartBytesTwo": 30_000,
                             "variant_StartBytesThree": 8_000, "variant_RareBytesOne": 40_000,
                             "variant_RareBytesTwo": 25_000, "variant_RareBytesThree": 8_000, "variant_Packed": 60_000,
                             "skipped_Memmem": 20_000, "skipped_StartBytesOne": 10_000, "skipped_StartBytesTwo": 20_000,
                             "skipped_StartBytesThree": 5_000, "skipped_RareBytesOne": 30_000,
                             "skipped_RareBytesTwo": 20_000, "skipped_RareBytesThree": 5_000, "skipped_Packed": 50_000},
                   "thorough": {"evaluations": 20_000_000}},
        "timeout": T_DEFAULT,
    },
    "C06": {
        "level": "exploration",
        "design_ref": "DESIGN.md section 5, C06",
        "rule": "1-128 non-empty patterns (minimum length 1,2,3,4+ selects the fingerprint length; shared prefixes; "
                "alphabets whose bytes share low nybbles) x {leftmost-first, leftmost-longest} x {Rabin-Karp, slim Teddy "
                "128-bit, slim Teddy 256-bit, fat Teddy 256-bit, default heuristics} (heuristic pattern limits off for "
                "the forced variants so that buckets are over-full) x haystacks of lengths around 0, 16, 32, 48, 64, 96, "
                "128, 256 (+512..4097 thorough) with five filler strategies (unused byte, low-nybble sharers, "
                "high-nybble sharers, first-byte decoys, sprinkled pattern bytes) and matches planted at the start, "
                "around multiples of 16/32, flush against the end, truncated at the end x spans; plus a near-miss sweep: for "
                "pattern lengths 1-40, 47-49, 63-72, 127-135 a copy with exactly one byte altered (first 4 bytes, middle, "
                "each of the last 9) is the only candidate in the haystack. find_in and find_iter "
                "compared with the leftmost oracle. Tallies '<impl>_m<mask>_{vector,fallback}' say whether the Teddy "
                "code or the short-haystack Rabin-Karp fallback ran. Non-trivial: a match exists.",
        "assumptions": COMMON_ASSUMPTIONS,
        "stages": {"quick": NATIVE, "thorough": NATIVE},
        "floors": {"quick": dict({"iterator_method_cases": 70_000, "giant_pattern_cases": 20, "hash_collision_cases": 20, "searches_at_shifted_base_address": 1_000_000,
                                   "evaluations": 3_000_000, "distinct_nontrivial": 1_000_000,
                                  "vector_path_with_match": 700_000, "match_in_final_16_bytes": 150_000, "near_miss_haystacks": 20_000,
                                  "match_straddles_16_byte_boundary": 100_000},
                                 **{"%s_m%d_vector" % (i, m): 20_000
                                    for i in ("SlimSSSE3", "SlimAVX2", "FatAVX2") for m in (1, 2, 3, 4)}),
                   "thorough": {"evaluations": 100_000_000}},
        "timeout": T_DEFAULT,
    },
    "C07": {
        "level": "exploration",
        "design_ref": "DESIGN.md section 5, C07",
        "rule": STREAM_RULE + "Oracle: the stream iterator's matches (absolute offsets) must equal the same searcher's "
                "in-memory find_iter on the concatenation; no io error without a fault; the iterator may end only after "
                "the reader returned 0. Rolls/fills are counted by the hooks. Non-trivial: at least one buffer roll "
                "happened and at least one match exists.",
        "assumptions": COMMON_ASSUMPTIONS[1:] + ["the in-memory find_iter of the same searcher is the reference (its own correctness is C02)"],
        "stages": {"quick": NATIVE, "thorough": NATIVE},
        "floors": {"quick": {"stream_count_calls": 4000, "evaluations": 50_000, "distinct_nontrivial": 30_000, "rolls_observed": 1_000_000,
                             "cases_with_roll": 30_000, "cases_default_capacity": 16,
                             "boundary_pattern_length_cases": 10, "prefilter_refill_cases": 10_000},
                   "thorough": {"evaluations": 2_000_000, "rolls_observed": 50_000_000}},
        "timeout": T_DEFAULT,
    },
    "C08": {
        "level": "exploration",
        "design_ref": "DESIGN.md section 5, C08",
        "rule": STREAM_RULE + "Replacement tables contain empty / shorter / longer / reversed replacements; a third of "
                "the writers accept only half of each write. Offline checker over the writer's log: output == in-memory "
                "find_iter + splice (== replace_all_bytes); closure variant: the (match, bytes) call log equals "
                "find_iter and the bytes of the concatenation at those offsets, output == bracketed splice. "
                "Non-trivial: a roll happened and a match exists.",
        "assumptions": COMMON_ASSUMPTIONS[1:] + ["the in-memory find_iter of the same searcher is the reference (C02/C12)"],
        "stages": {"quick": NATIVE, "thorough": NATIVE},
        "floors": {"quick": {"evaluations": 100_000, "distinct_nontrivial": 30_000, "rolls_observed": 1_000_000,
                             "cases_partial_writes": 10_000, "closure_calls_logged": 1_000_000,
                             "boundary_pattern_length_cases": 10, "prefilter_refill_cases": 10_000},
                   "thorough": {"evaluations": 4_000_000}},
        "timeout": T_DEFAULT,
    },
    "C18": {
        "level": "fault_enumeration",
        "design_ref": "DESIGN.md section 5, C18",
        "rule": STREAM_RULE + "For each case a fault-free run records matches*, output*, and the number of read and write "
                "calls; then for EVERY k below those counts a fault (ErrorKind Other / Interrupted / UnexpectedEof / "
                "WouldBlock) is injected (a) at the k-th read of stream_find_iter, (b) at the k-th read of "
                "stream_replace_all, (c) at the k-th write of stream_replace_all, plus sampled read+write double faults. "
                "Required: no panic; the error is surfaced (iterator item / Err return) - the iterator may only end "
                "without it if the reader reported end of stream; matches before the error are a prefix of matches*; "
                "bytes accepted by the writer are a prefix of output*. (std's write_all retries Interrupted writes: "
                "then Ok with complete output is required.) The read fault is one-off and the find iterator is drained "
                "further after it (a caller treating the fault as transient): all matches yielded before and after "
                "the error must still be a prefix of matches*, and if the iteration then ends after the reader's end "
                "of stream it must equal matches*; an iterator that only repeats the error is accepted. "
                "A case = one injected fault; every one is distinct. A writer that stops ACCEPTING bytes - Ok(0) for a "
                "non-empty buffer, once at write call k (every k) or for good once a fixed capacity is used up (like "
                "&mut [u8]; capacities 0, 1, half and all-but-one of the fault-free output) - is a failed write by "
                "Write::write_all's contract: the call must return an error and the accepted bytes be a prefix of out*.",
        "assumptions": COMMON_ASSUMPTIONS[1:] + [
            "fault positions are enumerated exhaustively per (stream, schedule, capacity); streams and schedules are sampled",
            "the error kind reaching the caller is not required to equal the injected kind, only that an error is reported"],
        "exhaustive": False,
        "exhaustive_note": "fault positions exhaustive per case; cases sampled",
        "stages": {"quick": NATIVE, "thorough": NATIVE},
        "floors": {"quick": {"writes_accepting_nothing_injected": 400_000, "fixed_capacity_sinks": 120_000, "consecutive_read_faults_injected": 150_000, "evaluations": 1_500_000, "read_faults_injected_find": 500_000,
                             "read_faults_injected_replace": 500_000, "write_faults_injected": 400_000,
                             "read_faults_surfaced_in_rolling_cases": 400_000,
                             "iterations_resumed_after_fault": 300_000},
                   "thorough": {"evaluations": 40_000_000}},
        "timeout": T_DEFAULT,
    },
    "C10": {
        "level": "exploration",
        "design_ref": "DESIGN.md section 5, C10",
        "rule": "prefilter-directed and structured-random pattern lists x 3 match kinds x anchored/unanchored x random "
                "configuration (all automaton kinds, all prefilter variants) x vector-shaped haystacks with decoys x "
                "spans (full, heads, tails shorter than a vector, inner, start=end+1). Metamorphic oracle per case: "
                "(1) every API (find, find_iter, earliest, overlapping iterator/stepping) on the span equals the same "
                "API on the sub-slice shifted by start; (2) every match lies inside the span; (3) rewriting all bytes "
                "outside the span with random bytes, and with pattern heads/tails that would complete a match across "
                "the boundary, leaves all results unchanged; (4) start=end+1 yields nothing; (5) the same span given through "
                "Input::range(s..e), range(s..=e-1), range(..e), range(s..) and set_start/set_end gives the same try_find "
                "result. Same for "
                "packed::Searcher::find_in in all packed variants. Non-trivial: a proper sub-span with a match. The Input "
                "objects handed to the searchers have a history: before the wanted settings they were configured for "
                "something else - a span to the left of the wanted one, or (when the wanted span is then set by one "
                "call) to the right of it with a gap - and only the last setting may count.",
        "assumptions": COMMON_ASSUMPTIONS[1:],
        "stages": {"quick": NATIVE_AND_CHECKED, "thorough": NATIVE_AND_CHECKED},
        "floors": {"quick": {"long_haystacks": 5000, "evaluations": 3_000_000, "distinct_nontrivial": 300_000, "outside_rewrites": 1_000_000,
                             "done_spans": 100_000, "input_range_forms": 1_000_000, "packed_span_SlimSSSE3": 100_000, "packed_span_FatAVX2": 100_000,
                             "variant_Packed": 4000, "variant_RareBytesOne": 3000, "variant_StartBytesTwo": 2000,
                             "variant_Memmem": 1000},
                   "thorough": {"evaluations": 100_000_000}},
        "timeout": T_DEFAULT,
    },
    "C11": {
        "level": "exploration",
        "design_ref": "DESIGN.md section 5, C11",
        "rule": "pattern lists over alphabets drawn from a A z Z k K @ [ ` { 1 0xC1 0xE1 NUL 0x80 (bytes that differ by "
                "0x20 with and without being letters), patterns differing only by bit 0x20, plus prefilter-directed "
                "lists; haystacks get bit 0x20 flipped at random positions. Searchers built with "
                "ascii_case_insensitive(true), all match kinds, anchored/unanchored, random automaton configuration. "
                "(a) folding oracle: find / find_iter / overlapping (stepping + iterator) must equal the definition "
                "with A-Z mapped to a-z on both sides and pattern ids as supplied; (b) metamorphic: results equal those "
                "of a case-sensitive searcher for the folded patterns on the folded haystack. Non-trivial: a match "
                "exists.",
        "assumptions": COMMON_ASSUMPTIONS,
        "stages": {"quick": NATIVE, "thorough": NATIVE},
        "floors": {"quick": {"long_haystacks": 4000, "evaluations": 3_000_000, "distinct_nontrivial": 250_000,
                             "fold_metamorphic_comparisons": 500_000, "haystacks_with_boundary_bytes": 200_000},
                   "thorough": {"evaluations": 100_000_000}},
        "timeout": T_DEFAULT,
    },
    "C12": {
        "level": "exploration",
        "design_ref": "DESIGN.md section 5, C12",
        "rule": "UTF-8 haystacks of 0-14 characters over 3-6 of {a b e-acute sharp-s euro CJK emoji U+1D11E U+80 U+7FF "
                "U+800 U+FFFF U+10000 space}; 1-5 byte patterns that are whole characters, proper prefixes / suffixes of "
                "a code point, arbitrary byte slices of the haystack (straddling characters), sometimes the empty "
                "pattern; all match kinds and automaton configurations; replacement tables with empty / multi-byte "
                "replacements; closures that return false at call 0-3. Oracle: the searcher's own find_iter output is "
                "spliced by the monitor (for &str APIs after dropping matches whose bounds are not char boundaries) and "
                "compared with replace_all, replace_all_bytes, replace_all_with, replace_all_with_bytes (try_ forms); "
                "closure call logs must equal the match list and the matched text; results must be valid UTF-8; no "
                "panic. Non-trivial: at least one match. What the closure appends varies per case: a marker around the "
                "replacement, the bare replacement (which may be empty), or nothing at all - also in the call that "
                "returns false (the match is then deleted and the remainder starts behind it).",
        "assumptions": COMMON_ASSUMPTIONS[1:] + ["the searcher's own find_iter is the given (C01/C02 decide its correctness)"],
        "stages": {"quick": NATIVE, "thorough": NATIVE},
        "floors": {"quick": {"evaluations": 1_000_000, "distinct_nontrivial": 200_000,
                             "cases_with_non_boundary_matches": 100_000, "cases_with_empty_matches": 15_000,
                             "haystacks_of_1_kib_or_more": 5_000,
                             "closure_stopped_early": 40_000, "closure_stopped_without_appending": 6000,
                             "closures_appending_nothing": 25_000},
                   "thorough": {"evaluations": 40_000_000}},
        "timeout": T_DEFAULT,
    },
})

# Text for MANIFEST.json (level_claimed.text, level_note, technique) per property.
_ORACLE_NOTE = ("Trusted base: the naive byte-comparison oracle, the generators, rustc/std. Exploration only: "
                "holds on the executions observed (counts in the evidence file), not for all inputs.")

MANIFEST_TEXT = {
    "C01": {
        "level_text": "Exploration with a reference-model oracle: every try_find / try_find_iter result of the real "
                      "crate is compared with a quadratic definition-level oracle over an exhaustively enumerated small "
                      "scope (all pattern lists/haystacks/spans over {a,b}) and millions of seeded structured-random "
                      "cases across all automaton kinds and builder options. Right level because the property is a "
                      "pure input/output relation whose counterexamples are small (all found defects had <=3 patterns "
                      "of <=3 bytes).",
        "level_note": _ORACLE_NOTE,
        "technique": "runtime monitoring: differential oracle over enumerated + random executions",
    },
    "C02": {
        "level_text": "Same engine as C01 for MatchKind::Standard: earliest end, longest at that end, lowest index among "
                      "identical patterns; iterator with the empty-match rule.",
        "level_note": _ORACLE_NOTE,
        "technique": "runtime monitoring: differential oracle over enumerated + random executions",
    },
    "C03": {
        "level_text": "Online trace monitor over the call history of one OverlappingState: call k must return the k-th "
                      "element of the sorted occurrence list computed by the oracle, then None forever; clones of the "
                      "state must continue identically; the iterator must yield the same list. Small scope enumerated "
                      "exhaustively plus random cases.",
        "level_note": _ORACLE_NOTE,
        "technique": "runtime monitoring: online history checker against a sequential reference list",
    },
    "C09": {
        "level_text": "Reference-oracle comparison of anchored try_find, try_find_iter (all match kinds) and stepwise "
                      "overlapping search (standard) on searchers built with anchored/both start kinds, enumerated "
                      "small scope (suffix-closed sets arise by exhaustion) plus random cases.",
        "level_note": _ORACLE_NOTE,
        "technique": "runtime monitoring: differential oracle over enumerated + random executions",
    },
    "C13": {
        "level_text": "The configuration x API matrix is finite and is enumerated completely on every run: each of the "
                      "21 public search entry points (and of the 12 fallible ones of the low-level automaton types) is called and "
                      "classified (accepted / error / panic / late failure) "
                      "and compared with the rejection predicate of the property; pattern lists and haystacks vary "
                      "to show independence from them.",
        "level_note": "Trusted base: the predicate transcribed from the property text, catch_unwind classification. "
                      "Pattern lists and haystacks are sampled, the configuration space is complete.",
        "technique": "runtime monitoring: exhaustive configuration-matrix execution with outcome classification",
    },
    "C14": {
        "level_text": "Relational monitor on the same searcher and input: is_match == find.is_some() == oracle existence; "
                      "earliest-mode result is a genuine occurrence, respects span/anchoring, ends no later than the "
                      "normal result and is None iff the normal result is None. Enumerated small scope + random cases, "
                      "all prefilter/automaton kinds.",
        "level_note": _ORACLE_NOTE,
        "technique": "runtime monitoring: relational (metamorphic) oracle over enumerated + random executions",
    },
}

COST_FAMILIES = ["Memmem", "StartBytesOne", "StartBytesTwo", "StartBytesThree", "RareBytesOne", "RareBytesTwo",
                 "RareBytesThree", "Packed", "standard-RareBytesTwo", "none-akb", "none-fib", "none-nested",
                 "none-periodic", "ci-trie",
                 "overlap-RareBytesOne", "overlap-RareBytesTwo", "overlap-StartBytesTwo", "overlap-none-akb",
                 "overlap-Memmem", "overlap-StartBytesOne", "overlap-StartBytesThree", "overlap-RareBytesThree",
                 "overlap-none-nested", "stream-none-akb", "stream-none-nested", "stream-StartBytesTwo",
                 "stream-RareBytesOne"]
COST_STAGE_QUICK = {"kind": "callgrind", "name": "cost", "families": COST_FAMILIES, "sizes": [16384, 32768, 65536]}
COST_STAGE_THOROUGH = {"kind": "callgrind", "name": "cost", "families": COST_FAMILIES, "sizes": [65536, 131072, 262144]}

ASAN_ENV = {"ASAN_OPTIONS": "abort_on_error=1:halt_on_error=1:detect_leaks=0:allocator_may_return_null=1"}

PROPS.update({
    "C19": {
        "level": "exploration",
        "design_ref": "DESIGN.md section 5, C19",
        "rule": "adversarial families (a^k b with k up to 2000 against a^n; nested suffix chains; Fibonacci strings; "
                "case-insensitive tries; long shared prefix + rare byte so that prefilter and automaton alternate; "
                "periodic (ab)^k c; structured random) with haystacks up to 20 KB (quick) / 64 KiB (thorough) x 3 match "
                "kinds x anchored/unanchored x random configuration (all automaton kinds, prefilter on/off). The hook "
                "counters are reset around each call: a fresh try_find (normal and earliest) must take <= span length "
                "transitions, failure traversals <= transitions for the NFAs and 0 for a DFA; each next() of find_iter "
                "is measured against the remaining span (2x, because an empty match at the previous end is retried one "
                "byte later); overlapping stepping and stream iteration are measured cumulatively over one "
                "OverlappingState / one stream iterator. The hook's work limit (4*len+64) turns a non-terminating "
                "failure loop into a panic that is reported as a violation. Non-trivial: a call that took at least one "
                "transition. Second stage 'cost' (added after a seeded change made a prefilter rescan the haystack from "
                "offset 0 on every call, which the transition counters cannot see): for 27 cost families (one per "
                "prefilter variant incl. standard semantics, plus a^k b, Fibonacci, nested-suffix, periodic and "
                "case-insensitive tries without prefilter; 'overlap-*' = stepwise overlapping search to exhaustion, "
                "'stream-*' = stream_find_iter with a 61-byte spare buffer) the whole search of one searcher runs under "
                "`valgrind --tool=callgrind --toggle-collect=*cost_probe_measured*`, giving the exact instruction count "
                "of that search (independent of machine load). Haystacks have no candidate byte in their first half and "
                "a false candidate every few bytes afterwards. Relations: cost(2n) <= 2.5*cost(n)+50k for n = 16K, 32K "
                "(64K, 128K thorough), and again for n = 16K with the two halves swapped (candidate-free tail); cost of a span behind an 8 MiB candidate-free prefix, and of a span followed by an "
                "8 MiB candidate-free suffix, <= 1.5*cost of the sub-slice + 100k.",
        "assumptions": COMMON_ASSUMPTIONS[1:] + [
            "counters are incremented at the three next_state call sites of the generic search loops and in the "
            "failure loops of both NFAs (hook commit); prefilter scanning is not counted as automaton work",
            "wall-clock time is never a verdict; linearity is judged on hook counters and on callgrind instruction counts",
            "the cost stage needs valgrind's callgrind tool (present in this image) and measures find_iter on the contiguous NFA only"],
        "stages": {"quick": NATIVE + [COST_STAGE_QUICK], "thorough": NATIVE + [COST_STAGE_THOROUGH]},
        "floors": {"quick": {"evaluations": 50_000, "distinct_nontrivial": 20_000, "transitions_observed": 50_000_000,
                             "cost_measurements": 180, "cost_relations_checked": 110,
                             "failures_observed": 20_000_000, "calls_with_heavy_failure_traffic": 3000,
                             "stream_iterators_measured": 2000, "stream_rolls_observed": 5_000_000, "family_a^k_b": 150, "family_fibonacci": 150,
                             "family_nested_suffixes": 150},
                   "thorough": {"evaluations": 1_000_000}},
        "timeout": T_DEFAULT,
    },
    "C20": {
        "level": "exploration",
        "design_ref": "DESIGN.md section 5, C20",
        "rule": "collection shapes (no patterns; only empty patterns; duplicates; all 256 single bytes; 256 children "
                "below one node; 99-130 patterns; thousands of random patterns; 200-600 byte patterns; all byte values "
                "inside longer patterns; empty pattern mixed in; one wide node whose fan-out sweeps 1-9, 64, 125-131, 252-256; "
                "structured random) x 10 random builder configurations "
                "each (7 ways of building x match kind x start kind x case folding x prefilter x dense_depth "
                "0/1/2/5/1000 x byte classes). Each build runs under catch_unwind and must return Ok; then "
                "patterns_len, min/max_pattern_len (non-empty collections), match_kind, start_kind, an explicitly "
                "requested kind, Automaton::pattern_len(i) for every i (low-level types) are compared with the input, "
                "and for up to 40 patterns per collection that contain no other pattern the haystack "
                "filler+pattern+filler must yield a match with that pattern's index. For every collection of <= 5000 bytes "
                "the convenience constructors (AhoCorasick::new, noncontiguous/contiguous NFA::new, DFA::new and their "
                "::builder(), packed::Searcher::new / Builder::new / Config::default) are compared with the default "
                "builders; the packed builder must return None (never panic) for no patterns, an empty pattern or more "
                "than 128 patterns. evaluations = builds + id probes + convenience sets. "
                "Non-trivial: collections with at least 2 patterns. An explicitly requested kind is checked twice: "
                "kind() must name it, and memory_usage() must not be exactly that of a hand-built low-level automaton "
                "of ANOTHER kind with the same options while differing from the requested kind's (in practice it "
                "equals the requested kind's: tally requested_kind_confirmed_by_heap_usage); every kind x start kind "
                "x match kind cell is built for 1, 3, 100, 101 and 130 patterns. Builders obtained through the Default "
                "trait (T::default(), mem::take) must behave like those from new() (packed: len()/minimum_len(), "
                "buildability, searches; automata: metadata and heap usage), and the option enums' defaults are the "
                "documented ones.",
        "assumptions": COMMON_ASSUMPTIONS[1:] + ["the documented size limits (2^31 states etc.) are not approached"],
        "stages": {"quick": NATIVE, "thorough": NATIVE},
        "floors": {"quick": {"default_trait_builder_sets": 1500, "explicit_kind_matrix_cells": 135, "requested_kind_confirmed_by_heap_usage": 3000, "builders_with_setter_history": 80, "packed_match_kind_reads": 40, "builder_reuse_builds": 500, "packed_builder_reuse_cases": 150, "big_dense_builds": 4, "metadata_read_through_reference_type": 2000, "evaluations": 40_000, "distinct_nontrivial": 8000, "pattern_id_probes": 30_000,
                             "built_top-auto": 1000, "built_low-dfa": 1000, "built_low-cnfa": 1000,
                             "shape_thousands_of_random_patterns": 200, "shape_no_patterns": 500,
                             "convenience_constructor_sets": 500},
                   "thorough": {"evaluations": 1_000_000}},
        "timeout": T_DEFAULT,
    },
    "C15": {
        "level": "exploration",
        "design_ref": "DESIGN.md section 5, C15",
        "rule": "one case generator, three observers. Cases: packed searchers (Rabin-Karp, slim-128, slim-256, fat-256, "
                "default) x mask length 1-4 x both match kinds, and automata of every kind with every prefilter variant "
                "(pattern lists aimed at Memmem/StartBytes1-3/RareBytes1-3/Packed), on haystacks of every length 0..300 "
                "(plus up to 4000 for prefilters) with vector-shaped content, decoys, arbitrary and invalid-UTF-8 bytes, "
                "x spans. Calls: find_in/find_iter (packed); try_find, earliest, find_iter, overlapping stepping, "
                "is_match, replace_all_bytes, replace_all (automata); plus all four replace routines on UTF-8 haystacks with byte "
                "patterns that split code points (the C12 generator). Observers: (1) 'guard': haystack placed flush "
                "against a PROT_NONE page on the right and on the left in a child process (a stray read = SIGSEGV, "
                "reported with the case the child had announced); (2) 'miri': exact-size boxed haystacks under the Miri "
                "interpreter built with +ssse3,+avx2 so that all Teddy variants run; (3) 'asan': exact-size heap "
                "haystacks in an AddressSanitizer build. Every stage also asserts start<=end<=len, pattern<patterns_len, "
                "match inside span, and absence of panics. One evaluation = one (searcher, placed haystack, span) on "
                "which all calls completed under the observer; all are distinct by construction. Every other list is "
                "also searched as a contiguous NFA resp. DFA converted (build_from_noncontiguous) from a separately "
                "built noncontiguous NFA by a builder whose own options differ.",
        "assumptions": COMMON_ASSUMPTIONS[1:] + [
            "guard pages and ASan red zones miss reads that land inside another live mapping/object; Miri does not but runs fewer cases",
            "Miri runs the Teddy code only because the harness is built with -Ctarget-feature=+ssse3,+avx2"],
        "stages": {
            "quick": [
                {"kind": "native", "name": "guard", "stage": "guard", "crash_is_violation": True},
                {"kind": "checked", "name": "checked", "stage": "guard", "crash_is_violation": True},
                {"kind": "asan", "name": "asan", "stage": "asan", "crash_is_violation": True, "env": ASAN_ENV, "tier": "quick"},
                {"kind": "miri", "name": "miri", "stage": "miri", "tier": "tiny", "shards": 16},
            ],
            "thorough": [
                {"kind": "native", "name": "guard", "stage": "guard", "crash_is_violation": True},
                {"kind": "checked", "name": "checked", "stage": "guard", "crash_is_violation": True},
                {"kind": "asan", "name": "asan", "stage": "asan", "crash_is_violation": True, "env": ASAN_ENV, "tier": "thorough"},
                {"kind": "miri", "name": "miri", "stage": "miri", "tier": "tiny", "shards": 64},
            ],
        },
        "floors": {"quick": {"converted_automata_built": 2500, "evaluations": 3_000_000, "guard_right_SlimSSSE3_m1": 30_000, "guard_left_SlimSSSE3_m1": 30_000,
                             "guard_right_FatAVX2_m4": 100_000, "guard_right_SlimAVX2_m2": 50_000,
                             "guard_right_prefilter_Packed": 20_000, "guard_right_prefilter_RareBytesOne": 15_000,
                             "guard_right_prefilter_Memmem": 8000,
                             "miri_box_SlimSSSE3_m1": 10, "miri_box_SlimAVX2_m2": 10, "miri_box_FatAVX2_m3": 10,
                             "miri_box_SlimSSSE3_m4": 10, "miri_box_RabinKarp_m1": 10, "miri_box_prefilter_any": 20,
                             "exact_box_SlimSSSE3_m2": 5000, "exact_box_FatAVX2_m3": 5000,
                             "guard_replace_apis": 50_000, "exact_box_replace_apis": 10_000, "miri_box_replace_apis": 30},
                   "thorough": {"evaluations": 50_000_000}},
        "timeout": {"quick": 1500, "thorough": 8 * 3600},
    },
})

TSAN_ENV = {"TSAN_OPTIONS": "halt_on_error=0:second_deadlock_stack=1:report_signal_unsafe=0", "ACMON_LIGHT": "1"}

PROPS.update({
    "C17": {
        "level": "exploration",
        "design_ref": "DESIGN.md section 5, C17",
        "rule": "a seeded 'world' = 7 automaton searchers (top-level auto/contiguous/DFA/noncontiguous and low-level "
                "contiguous/DFA/noncontiguous; all three match kinds; packed, rare-byte/start-byte prefilters; "
                "case-insensitive) + 4 packed searchers used directly (slim-128, slim-256, fat-256, Rabin-Karp) and a "
                "pool of 24 inputs (0-300 bytes and 2-20 KB). 8 threads run pre-planned random sequences over 11 "
                "operations (find, earliest, find_iter, is_match, overlapping iterator/stepping, anchored find, span "
                "find, replace_all_bytes, stream_find_iter, stream_replace_all) on shared references; odd threads use "
                "clones made beforehand and drop them inside the thread. Every operation is logged at the client "
                "boundary with call/return tickets from one global atomic counter and a hash of everything returned. "
                "Offline checker: each concurrent result equals the result computed sequentially before the threads "
                "started and again after they finished - and after 70 000 unrelated small searchers of every kind (six "
                "same-shape pattern sets; 3 000 under TSan) have been built, searched, compared with the reference "
                "model and dropped in between, with 60 process-wide long-lived witness searchers re-checked along the "
                "way -, and when the same operations are re-run in reverse and "
                "shuffled order and twice in a row; Debug renderings (all states/transitions/match lists) are "
                "unchanged; 'overlapping_operation_pairs' counts pairs from different threads whose ticket intervals "
                "overlapped. Observers: native ('threads'), write-protected searcher heap ('purity': world built from "
                "an mmap arena that is mprotect'ed read-only during the whole workload; any store into searcher memory "
                "is a SIGSEGV reported with the announced call), ThreadSanitizer build ('tsan', -Zbuild-std), and the "
                "Miri interpreter with a different scheduler seed per shard ('miri', 3 threads, data-race detector on "
                "safe and unsafe code). evaluations = sequential reference calls + concurrent operations checked. "
                "Distinct non-trivial = distinct (world seed, searcher, op, input) executed concurrently.",
        "assumptions": COMMON_ASSUMPTIONS[1:] + [
            "only the interleavings that occurred (plus Miri's seeded schedules) are covered",
            "a benign global that never changes results and never races is not a violation and is not reported",
            "the purity observer sees writes into memory allocated while the searchers were built, not writes to statics"],
        "stages": {
            "quick": [
                {"kind": "native", "name": "threads", "stage": "threads", "shards": 2},
                {"kind": "native", "name": "purity", "bin": "purity", "stage": "purity", "shards": 4,
                 "crash_is_violation": True},
                {"kind": "tsan", "name": "tsan", "stage": "tsan", "shards": 2, "env": TSAN_ENV,
                 "crash_is_violation": True},
                {"kind": "miri", "name": "miri", "stage": "miri", "tier": "tiny", "shards": 12,
                 "miri_seed_per_shard": True},
            ],
            "thorough": [
                {"kind": "native", "name": "threads", "stage": "threads", "shards": 2},
                {"kind": "native", "name": "purity", "bin": "purity", "stage": "purity", "shards": 4,
                 "crash_is_violation": True},
                {"kind": "tsan", "name": "tsan", "stage": "tsan", "shards": 2, "env": TSAN_ENV,
                 "crash_is_violation": True},
                {"kind": "miri", "name": "miri", "stage": "miri", "tier": "tiny", "shards": 96,
                 "miri_seed_per_shard": True},
            ],
        },
        "floors": {"quick": {"clone_pairs_checked": 300, "packed_clone_pairs_checked": 80, "evaluations": 200_000, "overlapping_operation_pairs": 100_000, "protected_windows": 8,
                             "rounds_threads": 8, "rounds_tsan": 2, "rounds_miri": 8,
                             "concurrent_stream_find_iter": 10_000, "concurrent_overlapping_step": 10_000,
                             "unrelated_searchers_built": 500_000},
                   "thorough": {"evaluations": 5_000_000, "rounds_miri": 60}},
        "timeout": {"quick": 1500, "thorough": 8 * 3600},
    },
})

_DIFF_NOTE = ("Trusted base: the differential/metamorphic relation itself, the generators, rustc/std. Exploration "
              "only: holds on the executions observed (counts in the evidence file).")

MANIFEST_TEXT.update({
    "C04": {
        "level_text": "The 'for every haystack' quantifier is reached per pattern list by monitoring the live automata: a "
                      "BFS over the reachable product of a reference automaton and each of 15 other representations "
                      "compares, at every reachable state pair and for all 256 bytes, everything the search loops "
                      "consume (is_match, ordered match list, pattern lengths, start flag). Agreement on the whole "
                      "reachable product implies identical results on every haystack for that pattern list. What cannot "
                      "be walked (top-level searcher, automatic kind choice, low-level vs top-level) is covered by an "
                      "end-to-end differential through all search entry points. Pattern lists are sampled.",
        "level_note": "Trusted base: the argument that search results are a function of the walked observables (the "
                      "generic loops in automaton.rs read nothing else); pattern lists sampled, per-list walk complete "
                      "up to a 200k-pair cap.",
        "technique": "runtime monitoring: exhaustive product walk of live automata + end-to-end differential",
    },
    "C16": {
        "level_text": "Structural invariant check at quiescent points: every state reachable from either start state of "
                      "each built low-level automaton is visited (all bytes, both anchoring arguments) and the trait "
                      "contract is asserted there; the documented search recipe is executed against the built-in search. "
                      "Exhaustive per automaton, pattern lists and options sampled.",
        "level_note": "Trusted base: the transcription of the contract and of the documented recipe; catch_unwind for "
                      "panics. Pattern lists sampled.",
        "technique": "runtime monitoring: exhaustive invariant walk of live data structures + recipe differential",
    },
    "C05": {
        "level_text": "Differential monitor: the same searcher built with the prefilter on and off must answer every "
                      "search API identically on hostile haystacks (decoy candidate bytes at every position, long inputs, "
                      "restricted spans, resumed searches). The monitor records which of the 8 prefilter variants each "
                      "case exercised and, via the transition-counter hook, that the prefilter actually skipped; "
                      "per-variant coverage floors make a run that missed a variant inconclusive.",
        "level_note": _DIFF_NOTE,
        "technique": "runtime monitoring: on/off differential with per-variant coverage floors (hook counters)",
    },
    "C06": {
        "level_text": "Reference-oracle comparison of packed::Searcher find_in/find_iter for every algorithm variant the "
                      "CPU offers x fingerprint length 1-4 x both match kinds on vector-shaped haystacks; tallies prove "
                      "that the vector code (not the fallback) ran for every (variant, mask length).",
        "level_note": _ORACLE_NOTE,
        "technique": "runtime monitoring: differential oracle on vector-shaped workloads, per-variant floors",
    },
    "C07": {
        "level_text": "Schedule exploration with an instrumented reader: read-size schedules and (through the hook) "
                      "internal buffer capacities down to max_pattern_len+1 force a roll/refill every few bytes; the "
                      "stream match sequence must equal the in-memory sequence. The un-hooked default capacity is "
                      "exercised on long streams.",
        "level_note": _DIFF_NOTE + " Read schedules are sampled, not enumerated.",
        "technique": "runtime monitoring: event-logged reader, schedule/capacity stress, differential vs in-memory search",
    },
    "C08": {
        "level_text": "Conservation check over the recorded writer log and closure-call log: bytes out == bytes of the "
                      "stream outside matches (once, in order) + replacements; closure sees exactly find_iter's matches "
                      "and their bytes; partial-write writers included.",
        "level_note": _DIFF_NOTE,
        "technique": "runtime monitoring: offline checker over recorded I/O event logs (conservation)",
    },
    "C18": {
        "level_text": "Fault enumeration: for each sampled (stream, schedule, capacity) every read position and every "
                      "write position is failed once; the monitor requires the error to surface, no panic, and "
                      "prefix-correctness of matches and output against the fault-free run.",
        "level_note": "Fault positions exhaustive per case; cases sampled. Trusted base: instrumented reader/writer.",
        "technique": "runtime monitoring: exhaustive single-fault injection per execution, prefix checker",
    },
    "C10": {
        "level_text": "Metamorphic monitor: span search == shifted sub-slice search for every API; matches inside the "
                      "span; results invariant under hostile rewrites of the bytes outside the span (including pattern "
                      "heads/tails straddling the boundary); all prefilter and packed variants, anchored and unanchored.",
        "level_note": _DIFF_NOTE,
        "technique": "runtime monitoring: metamorphic relations (sub-slice, outside-byte rewriting)",
    },
    "C11": {
        "level_text": "Folding oracle (occurrence iff bytes equal after A-Z -> a-z on both sides) for find / iter / "
                      "overlapping / anchored on case-insensitive searchers, plus the metamorphic relation "
                      "ci(P,H) == cs(fold P, fold H), on alphabets that contain the bytes adjacent to the letter ranges "
                      "and non-letters differing by 0x20.",
        "level_note": _ORACLE_NOTE,
        "technique": "runtime monitoring: reference oracle + metamorphic folding relation",
    },
    "C12": {
        "level_text": "Monitor-side splice of the searcher's own find_iter output compared with all eight replace "
                      "routines on UTF-8 haystacks with byte patterns that split code points; closure call logs checked; "
                      "UTF-8 validity and absence of panics checked.",
        "level_note": _DIFF_NOTE,
        "technique": "runtime monitoring: differential against monitor-side splice, closure event log",
    },
})

MANIFEST_TEXT.update({
    "C19": {
        "level_text": "Counter hooks at the automaton-transition and failure-link sites are read around every monitored "
                      "call on adversarial pattern families; the monitor enforces the per-call (or per-state-object, for "
                      "resumable searches) inequalities of the property and converts non-termination into an observable "
                      "panic through a work limit. The 'consequently linear cost' clause is observed separately as exact "
                      "instruction counts (callgrind) of whole searches at doubling sizes and behind irrelevant prefixes, "
                      "which also sees work done inside prefilters.",
        "level_note": "Trusted base: placement of the counter hooks (hook commit in /repo), the adversarial generators. "
                      "Logical steps only; no wall-clock verdicts.",
        "technique": "runtime monitoring: hook counters + work-limit watchdog on adversarial workloads; callgrind instruction-count scaling relations",
    },
    "C20": {
        "level_text": "Every build of shape-diverse collections under random option combinations runs under catch_unwind "
                      "and must succeed; all metadata accessors and pattern identifiers are compared with the input.",
        "level_note": "Trusted base: generators, catch_unwind. Size limits near 2^31 are out of reach of execution.",
        "technique": "runtime monitoring: build-and-inspect over shape-diverse collections",
    },
    "C15": {
        "level_text": "Memory-safety observers on executions of the real SIMD code: guard pages on both sides of the "
                      "haystack at native speed for every length 0..300 and every packed/prefilter variant, the Miri "
                      "interpreter (precise UB and bounds detection) on a reduced workload, and an AddressSanitizer "
                      "build; plus match-bounds invariants and panic detection everywhere.",
        "level_note": "A clean run is not a proof of memory safety: only reached code, only the observed inputs; guard "
                      "pages/red zones miss non-adjacent stray reads (Miri covers those on its smaller workload).",
        "technique": "sanitizers: guard pages (mmap/mprotect) + Miri + ASan, with crash-time case reporting",
    },
})

MANIFEST_TEXT.update({
    "C17": {
        "level_text": "History checker + four observers: concurrent operations on shared searchers (and clones) are "
                      "logged with call/return tickets and result hashes and checked offline against the sequential "
                      "results taken before and after (purity across history and across threads); the searchers' heap is "
                      "write-protected during the workload so that any hidden mutation faults; ThreadSanitizer and "
                      "Miri's data-race detector watch the same workload. The evidence reports how many operation pairs "
                      "really overlapped in time.",
        "level_note": "Only the schedules that occurred and Miri's seeded ones; sanitizers only see reached code. "
                      "Trusted base: ticket counter (SeqCst atomic), FNV result hashing, mprotect.",
        "technique": "runtime monitoring: concurrent history log + offline checker; mprotect'ed heap; TSan; Miri race detector",
    },
})
