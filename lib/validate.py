#!/usr/bin/env python3
"""Validate MANIFEST.json and evidence/*.json against the given schemas (needs jsonschema: run with python3-vt)."""
import json, glob, sys
import jsonschema
m = json.load(open('/verif/MANIFEST.json')); s = json.load(open('/root/.vp/MANIFEST.schema.json'))
jsonschema.validate(m, s); print("manifest valid")
es = json.load(open('/root/.vp/EVIDENCE.schema.json'))
for f in sorted(glob.glob('/verif/evidence/*.json')):
    jsonschema.validate(json.load(open(f)), es); print(f, "valid")
