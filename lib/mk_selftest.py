#!/usr/bin/env python3
"""Generate the self-made mutants used to validate the monitors (selftest/*.diff).

Each mutant is a small textual change to /repo that compiles. They are kept as
patches; lib/selftest.sh applies one at a time to /repo's working tree, runs the
listed checks and restores the tree. None of them is ever committed to /repo.
"""
import json, os, subprocess, sys

REPO = "/repo"
OUT = "/verif/selftest"

M = []
def mut(name, file, old, new, checks, note, count=1):
    M.append(dict(name=name, file=file, old=old, new=new, checks=checks, note=note, count=count))

# ---- C01 / leftmost
mut("c01_no_leftmost_first_pruning", "src/nfa/noncontiguous.rs",
    "if self.builder.match_kind.is_leftmost_first() && saw_match {",
    "if false && self.builder.match_kind.is_leftmost_first() && saw_match {",
    ["C01"], "leftmost-first no longer prunes patterns behind an earlier prefix pattern")
mut("c01_fail_dead_only_depth1", "src/nfa/noncontiguous.rs",
    """                if is_leftmost
                    && (start_is_match || self.nfa.states[t.next].is_match())
                {
                    self.nfa.states[t.next].fail = NFA::DEAD;
                    continue;
                }""",
    """                if is_leftmost && start_is_match {
                    self.nfa.states[t.next].fail = NFA::DEAD;
                    continue;
                }""",
    ["C01"], "failure links after a match state are only cut directly below the start state")
# ---- C02 / standard
# ---- C03 overlapping
mut("c03_overlapping_skips_index1", "src/automaton.rs",
    "                state.next_match_index = Some(1);\n                    state.mat = Some(m);",
    "                state.next_match_index = Some(2);\n                    state.mat = Some(m);",
    ["C03"], "overlapping search drops the second match of every match state")
# ---- C04 representation
# ---- C05 prefilters
mut("c05_rare_offset_min", "src/util/prefilter.rs",
    "cmp::max(self.set[byte as usize].max, off.max);",
    "cmp::min(self.set[byte as usize].max.max(if self.set[byte as usize].max == 0 { off.max } else { 0 }), off.max.max(self.set[byte as usize].max.min(off.max)));",
    ["C05"], "rare byte offsets keep the minimum offset instead of the maximum")
mut("c05_rare_no_clamp", "src/util/prefilter.rs",
    """                let offset = self.offsets.set[usize::from(haystack[pos])].max;
                cmp::max(span.start, pos.saturating_sub(usize::from(offset)))
            })
            .map_or(Candidate::None, Candidate::PossibleStartOfMatch)
    }
}

/// A prefilter for scanning for three "rare" bytes.""",
    """                let offset = self.offsets.set[usize::from(haystack[pos])].max;
                cmp::max(span.start, pos.saturating_sub(usize::from(offset.saturating_sub(1))))
            })
            .map_or(Candidate::None, Candidate::PossibleStartOfMatch)
    }
}

/// A prefilter for scanning for three "rare" bytes.""",
    ["C05"], "two-rare-byte prefilter backs up one byte too little")
mut("c05_startbytes_skip_first", "src/util/prefilter.rs",
    """        memchr::memchr3(self.byte1, self.byte2, self.byte3, &haystack[span])
            .map(|i| span.start + i)""",
    """        memchr::memchr3(self.byte1, self.byte2, self.byte2, &haystack[span])
            .map(|i| span.start + i)""",
    ["C05"], "three-start-byte prefilter forgets the third byte")
# ---- C07 / C08 / C18 stream
mut("c07_roll_keeps_one_byte_less", "src/util/buffer.rs",
    "        self.buf.copy_within(roll_start..roll_end, 0);",
    "        self.buf.copy_within(roll_start + 1..roll_end, 1);",
    ["C07", "C08"], "roll loses the first byte of the retained suffix")
mut("c07_sid_reset_on_refill", "src/automaton.rs",
    "                    self.buffer_pos = self.buf.min_buffer_len();",
    "                    self.buffer_pos = self.buf.min_buffer_len();\n                    self.sid = self.start;",
    ["C07", "C08"], "automaton state is reset at every buffer roll")
mut("c18_read_error_becomes_eof", "src/util/buffer.rs",
    "            let readlen = rdr.read(self.free_buffer())?;",
    "            let readlen = match rdr.read(self.free_buffer()) { Ok(n) => n, Err(e) if e.kind() == std::io::ErrorKind::Interrupted => 0, Err(e) => return Err(e) };",
    ["C18"], "an Interrupted read is treated as end of stream")
mut("c18_write_error_ignored", "src/automaton.rs",
    "                StreamChunk::NonMatch { bytes, .. } => {\n                    wtr.write_all(bytes)?;",
    "                StreamChunk::NonMatch { bytes, .. } => {\n                    let _ = wtr.write_all(bytes);",
    ["C18"], "write errors on non-match chunks are swallowed")
# ---- C09 anchored
mut("c09_drop_anchored_filter", "src/automaton.rs",
    "                if !(anchored.is_anchored() && m.start() > input.start()) {",
    "                if !(anchored.is_anchored() && m.start() > input.start() + 1) {",
    ["C09"], "anchored search accepts matches starting one byte after the search start")
# ---- C10 span
mut("c10_memmem_ignores_span_end", "src/util/prefilter.rs",
    "        self.0.find(&haystack[span]).map_or(Candidate::None, |i| {",
    "        self.0.find(&haystack[span.start..]).map_or(Candidate::None, |i| {",
    ["C10", "C05"], "memmem prefilter searches past the end of the span")
# ---- C11 case folding
mut("c11_fold_range_widened", "src/util/prefilter.rs",
    "    if b'A' <= b && b <= b'Z' {\n        b.to_ascii_lowercase()",
    "    if b'@' <= b && b <= b'Z' {\n        b | 0x20",
    ["C11"], "'@' is folded with '`'")
# ---- C12 replace
mut("c12_boundary_check_start_only", "src/automaton.rs",
    "            if !haystack.is_char_boundary(m.start())\n                || !haystack.is_char_boundary(m.end())",
    "            if !haystack.is_char_boundary(m.start())\n                || (m.is_empty() && !haystack.is_char_boundary(m.end()))",
    ["C12"], "replace_all only checks the end boundary of empty matches")
# ---- C13 rejection
mut("c13_iter_skips_start_kind_check", "src/ahocorasick.rs",
    """        let input = input.into();
        enforce_anchored_consistency(self.start_kind, input.get_anchored())?;
        Ok(FindIter(self.aut.try_find_iter(input)?))""",
    """        let input = input.into();
        Ok(FindIter(self.aut.try_find_iter(input)?))""",
    ["C13"], "try_find_iter no longer checks the start kind (NFAs then accept, DFA errors)")
# ---- C14 earliest
mut("c14_is_match_ignores_span_end", "src/ahocorasick.rs",
    "        self.try_find(input.into().earliest(true))",
    "        self.try_find({ let i: Input<'h> = input.into(); let e = i.haystack().len(); let s = i.start(); if s <= e { i.range(s..e) } else { i } }.earliest(true))",
    ["C14", "C10"], "is_match searches to the end of the haystack instead of the end of the span")
# ---- C16 contract
mut("c16_dead_not_special_in_dfa", "src/dfa.rs",
    "        sid <= self.special.max_special_id",
    "        sid <= self.special.max_special_id && sid != DFA::DEAD",
    ["C16", "C19"], "DFA no longer flags the dead state as special (search loops run on to the end)")
# ---- C19 work
mut("c19_rescan_after_prefilter", "src/automaton.rs",
    "                    Some(i) => {\n                        if i > at {\n                            at = i;\n                            continue;\n                        }\n                    }",
    "                    Some(i) => {\n                        if i > at {\n                            at = i - 1;\n                            continue;\n                        }\n                    }",
    ["C19", "C05"], "search resumes one byte before the prefilter candidate")
# ---- C20 metadata
mut("c20_min_len_ignores_empty", "src/nfa/noncontiguous.rs",
    "                core::cmp::min(self.nfa.min_pattern_len, pat.len());",
    "                core::cmp::min(self.nfa.min_pattern_len, core::cmp::max(1, pat.len()));",
    ["C20", "C13"], "min_pattern_len never reports 0")
# ---- replacements for mutants that turned out to be equivalent
mut("c01_iter_forgets_empty_match_end", "src/automaton.rs",
    "        self.input.set_start(m.end());\n        self.last_match_end = Some(m.end());",
    "        self.input.set_start(m.end());\n        if !m.is_empty() {\n            self.last_match_end = Some(m.end());\n        }",
    ["C01", "C02"], "iterator only remembers the end of non-empty matches: an empty match is yielded again and again")
mut("c02_duplicates_report_last_id", "src/nfa/noncontiguous.rs",
    """        let new_match_link = self.alloc_match()?;
        self.matches[new_match_link].pid = pid;
        if link == StateID::ZERO {
            self.states[sid].matches = new_match_link;
        } else {
            self.matches[link].link = new_match_link;
        }
        Ok(())""",
    """        let new_match_link = self.alloc_match()?;
        self.matches[new_match_link].pid = pid;
        let _ = link;
        self.matches[new_match_link].link = head;
        self.states[sid].matches = new_match_link;
        Ok(())""",
    ["C02", "C03", "C01"], "add_match prepends: identical patterns are reported by the last supplied id")
mut("c04_sparse_padding_zero", "src/nfa/contiguous.rs",
    "            let repeat = chunk[len - 1];",
    "            let repeat = 0;",
    ["C04", "C16"], "contiguous NFA pads the last class chunk of a sparse state with class 0 instead of repeating the last class")
# ---- C17 purity
mut("c17_memo_last_start", "src/util/prefilter.rs",
    """#[derive(Clone, Debug)]
struct StartBytesTwo {
    byte1: u8,
    byte2: u8,
}""",
    """#[derive(Debug)]
struct StartBytesTwo {
    byte1: u8,
    byte2: u8,
    last: core::sync::atomic::AtomicUsize,
}""",
    ["C17"], "start-byte prefilter memoises the last candidate in an atomic (see second hunk)")

def main():
    os.makedirs(OUT, exist_ok=True)
    if subprocess.run(["git", "-C", REPO, "diff", "--quiet"]).returncode != 0:
        sys.exit("/repo working tree is dirty")
    index = []
    for m in M:
        path = os.path.join(REPO, m["file"])
        src = open(path).read()
        if src.count(m["old"]) != m["count"]:
            print("SKIP %s: pattern found %d times (expected %d)" % (m["name"], src.count(m["old"]), m["count"]))
            continue
        new = src.replace(m["old"], m["new"])
        extra = EXTRA.get(m["name"])
        open(path, "w").write(new)
        if extra:
            for (f, o, n) in extra:
                p2 = os.path.join(REPO, f)
                s2 = open(p2).read()
                assert s2.count(o) == 1, (m["name"], f, s2.count(o))
                open(p2, "w").write(s2.replace(o, n))
        diff = subprocess.run(["git", "-C", REPO, "diff"], stdout=subprocess.PIPE, text=True).stdout
        subprocess.run(["git", "-C", REPO, "checkout", "--", "."])
        open(os.path.join(OUT, m["name"] + ".diff"), "w").write(diff)
        index.append({"name": m["name"], "expected_checks": m["checks"], "note": m["note"]})
    json.dump(index, open(os.path.join(OUT, "index.json"), "w"), indent=1)
    print("wrote %d mutants" % len(index))

# second hunks for multi-site mutants
EXTRA = {
    "c17_memo_last_start": [
        ("src/util/prefilter.rs",
         """                2 => Arc::new(StartBytesTwo {
                    byte1: bytes[0],
                    byte2: bytes[1],
                }),""",
         """                2 => Arc::new(StartBytesTwo {
                    byte1: bytes[0],
                    byte2: bytes[1],
                    last: core::sync::atomic::AtomicUsize::new(0),
                }),"""),
        ("src/util/prefilter.rs",
         """        memchr::memchr2(self.byte1, self.byte2, &haystack[span])
            .map(|i| span.start + i)
            .map_or(Candidate::None, Candidate::PossibleStartOfMatch)
    }
}

/// A prefilter for scanning for three starting bytes.""",
         """        // remember where the last scan ended so that a resumed search
        // does not rescan bytes already known to be free of candidates
        let from = core::cmp::max(span.start, core::cmp::min(self.last.load(core::sync::atomic::Ordering::Relaxed), span.end));
        let from = if from > span.start && haystack.len() > 64 { from } else { span.start };
        let r = memchr::memchr2(self.byte1, self.byte2, &haystack[from..span.end])
            .map(|i| from + i);
        self.last.store(r.unwrap_or(span.end), core::sync::atomic::Ordering::Relaxed);
        r.map_or(Candidate::None, Candidate::PossibleStartOfMatch)
    }
}

/// A prefilter for scanning for three starting bytes."""),
    ],
}

if __name__ == "__main__":
    main()
