// Low-level DFA that supports only unanchored searches, asked for an anchored search.
use aho_corasick::{automaton::{Automaton, OverlappingState}, dfa::DFA, Anchored, Input, StartKind, MatchKind};
fn main() {
    let dfa = DFA::builder().start_kind(StartKind::Unanchored).match_kind(MatchKind::Standard).build(&["abc", "b"]).unwrap();
    let hay = "xabcx";
    let mut bad = 0;
    // ordinary span: rejected (correct)
    let r = dfa.try_find(&Input::new(hay).anchored(Anchored::Yes));
    println!("try_find, span 0..5, anchored:                       {:?}", r.as_ref().map(|_| "accepted").map_err(|e| e.to_string()));
    assert!(r.is_err());
    // done span (start == end + 1): accepted
    let r = dfa.try_find(&Input::new(hay).span(5..4).anchored(Anchored::Yes));
    println!("try_find, span 5..4, anchored:                       {:?}", r.as_ref().map(|_| "accepted").map_err(|e| e.to_string()));
    if r.is_ok() { bad += 1; }
    let mut st = OverlappingState::start();
    let r = dfa.try_find_overlapping(&Input::new(hay).span(5..4).anchored(Anchored::Yes), &mut st);
    println!("try_find_overlapping, span 5..4, anchored:           {:?}", r.as_ref().map(|_| "accepted").map_err(|e| e.to_string()));
    if r.is_ok() { bad += 1; }
    // resumed state: an accepted unanchored step first, then the anchored request on the same state
    let mut st = OverlappingState::start();
    dfa.try_find_overlapping(&Input::new(hay), &mut st).unwrap();
    let r = dfa.try_find_overlapping(&Input::new(hay).anchored(Anchored::Yes), &mut st);
    println!("try_find_overlapping, span 0..5, anchored, resumed:  {:?}", r.as_ref().map(|_| "accepted").map_err(|e| e.to_string()));
    if r.is_ok() { bad += 1; }
    let mut st = OverlappingState::start();
    let r = dfa.try_find_overlapping(&Input::new(hay).anchored(Anchored::Yes), &mut st);
    println!("try_find_overlapping, span 0..5, anchored, fresh:    {:?}", r.as_ref().map(|_| "accepted").map_err(|e| e.to_string()));
    assert!(r.is_err());
    if bad > 0 { println!("{} requests with an unsupported anchor mode were accepted", bad); std::process::exit(1); }
    println!("ok");
}
